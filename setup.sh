#!/bin/sh
# Run once after a fresh restore, offline: builds the simulator binaries from
# files on disk (warms the Go build cache).  ./check rebuilds on every call.
set -e
cd "$(dirname "$0")"
exec ./check build plain
