#!/usr/bin/env python3
"""Regenerates the result tables inside DESIGN.md (between the HTML comment
markers) from mutants/RESULTS.txt and seeded/*/meta.json."""
import json, glob, os, re

HERE = os.path.dirname(os.path.dirname(os.path.abspath(__file__)))

# verdict of the quick check as it stood when each seed first arrived
FIRST_MISSED = {
    "C04-1", "C05-2", "C09-1", "C09-2", "C09-3", "C10-1", "C10-2", "C20-1",
    "C04-w2-1", "C05-w2-1", "C05-w2-2", "C05-w2-3", "C06-w2-2", "C08-w2-1", "C08-w2-2",
    "C09-w2-1", "C09-w2-2", "C09-w2-3", "C10-w2-1", "C10-w2-2", "C10-w2-3", "C15-w2-3", "C20-w2-1", "C20-w2-2",
    "C04-w3-2", "C05-w3-2", "C08-w3-1", "C08-w3-2", "C09-w3-2", "C10-w3-1", "C10-w3-2", "C11-w3-1", "C20-w3-1", "C20-w3-2",
    "C04-w4-1", "C04-w4-2", "C05-w4-1", "C05-w4-2", "C08-w4-1", "C08-w4-2", "C09-w4-1", "C09-w4-2", "C10-w4-1", "C10-w4-2",
    "C11-w4-1", "C11-w4-2", "C15-w4-2", "C20-w4-1",
    "C06-w5-1", "C06-w5-2", "C09-w5-1", "C09-w5-2", "C10-w5-1", "C10-w5-2", "C11-w5-1", "C15-w5-1", "C20-w5-2",
    "C04-w6-2", "C05-w6-2", "C08-w6-2", "C09-w6-2", "C10-w6-1", "C10-w6-2", "C15-w6-1", "C15-w6-2", "C20-w6-1", "C20-w6-2",
    "C04-w7-1", "C05-w7-1", "C06-w7-1", "C06-w7-2", "C09-w7-1", "C11-w7-1", "C15-w7-2", "C20-w7-2",
    "C04-w8-2", "C05-w8-1", "C06-w8-2", "C09-w8-1", "C09-w8-2", "C10-w8-1", "C10-w8-2", "C11-w8-2", "C15-w8-1", "C15-w8-2", "C20-w8-1",
    "C05-w9-1", "C06-w9-1",
    "C04-w10-1", "C05-w10-1", "C06-w10-1", "C08-w10-1", "C09-w10-1", "C10-w10-1", "C11-w10-1",
}

WHAT = {
    "C04-1": "budget refilled per callback when the host enters through FunCall on a re-entering builtin",
    "C04-2": "pending sleep under a deadline context ignores explicit cancellation",
    "C04-3": "special-operator frames skip the physical height check",
    "C05-1": "package not restored after an error in a non-final body form of a cross-package call",
    "C05-2": "refused stack push leaves a frame when the refused push is a macro call",
    "C05-3": "condition left pending when a handler expression fails",
    "C06-1": "catch-all binding used only as fallback when a later binding names the condition",
    "C06-2": "condition stack unwound from the bottom: rethrown-and-rehandled error truncates the outer entry",
    "C06-3": "live stack keeps the Go-stack marker: later forged internal-panic counts as real",
    "C09-1": "apply/unpack with no leading args hands a literal's cells to a callee's &rest list",
    "C09-2": "thread-last appends into spare capacity of the sealed call form (cross-runtime data race)",
    "C09-3": "SealAST does not descend into quote-of-quote operands",
    "C10-1": "&key binder names a random one of several unrecognised keywords",
    "C10-2": "libhelp memoises docstrings process-wide by function id",
    "C10-3": "pooled scratch slice leaks stale entries into JSON-decoded map renderings",
    "C15-1": "host ceiling above one hour replaces the default cap",
    "C15-2": "pending sleep under a deadline no longer wakes on cancellation",
    "C15-3": "time=, time<, time> compare at microsecond granularity",
    "C20-1": "prefix separator decided from the raw RootDir: trailing-separator root admits a sibling prefix",
    "C20-2": "confinement decided on the resolved path, unresolved path read (TOCTOU)",
    "C20-3": "fs.FS library takes the loader's first path element as its directory",
    "C04-w2-1": "an empty load leaks the entry-point depth: the budget is never refilled again",
    "C04-w2-2": "dotimes fails fast against the remaining budget",
    "C04-w2-3": "tail-iteration count survives in a reused stack slot",
    "C05-w2-1": "tail-iteration count survives in a reused stack slot (found independently)",
    "C05-w2-2": "FunCall entry-point depth drifts when the callee panics through to the host",
    "C05-w2-3": "append! bumps the vector's dimension before the allocation cap refuses it",
    "C06-w2-1": "error raised by a handler expression loses identity and panic marker",
    "C06-w2-2": "rethrow becomes legal inside a handler expression",
    "C06-w2-3": "ignore-errors returns the last successful value instead of ()",
    "C08-w2-1": "cached export list goes stale after set! on an exported name",
    "C08-w2-2": "callee's package stays current after a handled error in a non-final body form",
    "C08-w2-3": "pkg:name resolves lexically when pkg is the current package",
    "C09-w2-1": "quasiquote sole-splice fast path wraps the spliced literal's cells",
    "C09-w2-2": "concat of empty inputs returns one process-wide vector",
    "C09-w2-3": "regexp pattern cache with broken double-checked locking (data race)",
    "C10-w2-1": "expr placeholder names cached process-wide: step count depends on process history",
    "C10-w2-2": "s:no-other-keys names a random one of several disallowed keys",
    "C10-w2-3": "float sums of >= 16384 operands reduced by goroutines in arrival order",
    "C11-w2-1": "insert-index/insert-sorted at the end appends into the source's spare capacity",
    "C11-w2-2": "append! bumps the dimension before the allocation cap refuses it",
    "C11-w2-3": "copying a sorted map shares its key-spelling table",
    "C15-w2-1": "5 ms slop on the deadline refusal",
    "C15-w2-2": "deadline honoured only when the context has a Done channel",
    "C15-w2-3": "context bridged only onto environments that have none: a function defined under another context sleeps under the old one",
    "C20-w2-1": "resolved root cached process-wide: stale after the root symlink is re-pointed",
    "C20-w2-2": "fast path for a sibling of the loading file trusts a context spelled through a directory symlink",
    "C20-w2-3": "FSLibrary cleans as a rooted path: excess .. segments are dropped instead of rejected",
    "C04-w3-1": "macro re-expansion counts a step but skips the limit check",
    "C04-w3-2": "Eval of a symbol or literal at top level does not refill the budget",
    "C05-w3-1": "literal fast path in eval leaks a nesting level when a limit error lands on it",
    "C05-w3-2": "specialOpCall pops its frame inline: a host panic in an embedder-registered special operator leaks it",
    "C06-w3-1": "a catch-all listed before the named binding stops the binding search for a host panic",
    "C06-w3-2": "error raised inside a handler inherits the handled condition's stack and with it the panic marker",
    "C08-w3-1": "true / false can be rebound through a function's formals",
    "C08-w3-2": "functions defined while the language package is current run in the caller's package",
    "C09-w3-1": "qualified-symbol resolution cached process-wide on the sealed program node",
    "C09-w3-2": "json:dump-bytes returns a window onto a pooled encoder buffer",
    "C10-w3-1": "frame name of a closure bound in several packages chosen by Go map iteration",
    "C10-w3-2": "process-wide format-string template cache remembers a call-specific error",
    "C11-w3-1": "sorted-map key list memoised and handed out: sorting it reorders later enumeration",
    "C11-w3-2": "select/reject wrap the input's cells when nothing is dropped",
    "C15-w3-1": "polling sleep in whole 25 ms steps for contexts without a Done channel",
    "C15-w3-2": "default one-hour cap dropped when the context has a deadline",
    "C20-w3-1": "case-insensitive confinement comparison",
    "C20-w3-2": "missing final path element resolved by its parent only (link planted before the read)",
    "C04-w4-1": "constant in tail position returned without a step: a value comes back after the budget ran out / the context was cancelled",
    "C04-w4-2": "evaluator nesting restarts from zero inside a nested load",
    "C05-w4-1": "context not bridged when none is threaded: a function defined under a since-cancelled context fails from context-less entry points",
    "C05-w4-2": "bytes append! / append-bytes! half-applied when a later element is refused",
    "C06-w4-1": "an error raised by a handler is offered to the later bindings of the same handler-bind",
    "C06-w4-2": "load builtins re-stamp the error's call stack and lose the host-panic marker",
    "C08-w4-1": "operator-position fast path skips the lexical chain for names of special operators",
    "C08-w4-2": "in-package re-imports the language package on every entry, replacing the package's own definitions",
    "C09-w4-1": "let / let* complete an abbreviated binding in place in the parsed program",
    "C09-w4-2": "process-wide lazily filled table of type-name symbols shared by all runtimes",
    "C10-w4-1": "zone-less timestamps accepted and read in the host's local time zone",
    "C10-w4-2": "unknown-package errors suggest a near name chosen by ranging over the registry map",
    "C11-w4-1": "append-bytes! onto an empty accumulator adopts the source's buffer",
    "C11-w4-2": "zip carves all tuples from one slab without clamping their capacity",
    "C15-w4-1": "a negative host ceiling removes the default one-hour cap",
    "C15-w4-2": "0-means-no-deadline sentinel: sleeps at or after the deadline are admitted when the context's Err lags",
    "C20-w4-1": "a RootDir that cleans to \".\" counts as unconfigured",
    "C20-w4-2": "confinement approvals memoised per (root, location)",
    "C04-w5-1": "FunCall delegates to FunCallContext(Background): callbacks of funcall/apply/map/foldl run detached from the evaluation's context",
    "C04-w5-2": "macros dispatched through MacroCall: expansion-time code runs under the environment's stored context, not the threaded one",
    "C05-w5-1": "recovered host panic no longer decrements the evaluator nesting",
    "C05-w5-2": "load restores the package in straight-line code and returns early on error",
    "C06-w5-1": "ignore-errors exempts errors named context-cancelled",
    "C06-w5-2": "handler receives the condition's own data cells: in-place changes show in a later rethrow",
    "C08-w5-1": "use-package skips an exported function the importing package's name index already maps (re-import does not overwrite a shadowing definition)",
    "C08-w5-2": "macro bodies run in the caller's package",
    "C09-w5-1": "special-form operands no longer copied: a failing assert writes its evaluated message arguments into the parsed program",
    "C09-w5-2": "constant schema constraint failures preallocated process-wide (stamped with position and stack by whichever runtime raises them)",
    "C10-w5-1": "use-package lists all unbound exports in Go map order",
    "C10-w5-2": "load-string / load-bytes make a relative :name absolute: error positions contain the working directory",
    "C11-w5-1": "apply with a bare list hands the list's own cells to the callee's &rest parameter",
    "C11-w5-2": "rest of a vector returns a copy instead of a view",
    "C15-w5-1": "deadline fail-fast computed with an overflowing sum for enormous durations",
    "C15-w5-2": ":max below the default no longer caps",
    "C20-w5-1": "loading-file context taken from the root environment's current location instead of the call's frame",
    "C20-w5-2": "containment helper accepts a path that is a proper prefix of the root",
    "C04-w6-1": "context polled only on step 1 and every 64th step",
    "C04-w6-2": "Terminal flag restored through a frame pointer cached before argument evaluation: stale once the frame storage grows, the tail call is not elided and the iteration count restarts",
    "C05-w6-1": "call re-polls the context before a builtin and returns before the deferred restore of the environment's context",
    "C05-w6-2": "builtin looked up before binding: a refused argument binding returns with the caller's context left on the environment",
    "C06-w6-1": "handler-bind skips its bindings when the error is already being handled (rethrow from a handler-bind entered inside a handler)",
    "C06-w6-2": "Go stack snapshot (the host-panic marker) taken only for the first panic recovered in a top-level evaluation",
    "C08-w6-1": "new packages clone the language package's whole symbol table instead of importing its exports",
    "C08-w6-2": "in-package validates its documentation arguments after registering the package but before importing the language package: a refused first mention leaves an empty package behind",
    "C09-w6-1": "append 'list shares the first argument's backing array when nothing is appended: a later stable-sort sorts the program literal",
    "C09-w6-2": "Package.Exports sorts its variadic argument in place: libschema's process-wide symbol table is written while other runtimes are being constructed (data race)",
    "C10-w6-1": "help:help prints a native variable's Go value with %v (heap addresses)",
    "C10-w6-2": "function id of the lisp:typedef constructor drawn from a process-wide counter: error messages depend on how many runtimes the process created",
    "C11-w6-1": "slice does not clamp the capacity of a view that ends at the source's end",
    "C11-w6-2": "assoc returns its argument when the key already holds the identical value",
    "C15-w6-1": "no-:max cap resolved once by WithMaxSleep: a ceiling assigned to Runtime.MaxSleep afterwards is ignored without :max",
    "C15-w6-2": "handlers for context-cancelled run under context.WithoutCancel: a sleep inside sees neither deadline nor cancellation",
    "C20-w6-1": "resolved paths made absolute with filepath.Abs ($PWD spelling) instead of the resolved working directory",
    "C20-w6-2": "FSLibrary reports the requested string instead of the in-FS path as true location: nested loads resolve against the wrong directory",
    "C04-w7-1": "Eval / FunCall end their entry-point bookkeeping with a plain call instead of a defer: a host panic in a builtin reached through funcall/apply/map unwinds past it and the budget is never refilled again",
    "C05-w7-1": "stable-sort goes on calling a comparator that has already failed",
    "C06-w7-1": "handler-bind looks up every handler named by a bare symbol when the form is entered and fails at once if one is unbound",
    "C06-w7-2": "handler-bind pops the handled condition with a plain call: a host panic between push and pop leaves it pending",
    "C08-w7-1": "use-package hands out the defining package's current function instead of the named package's own binding (three packages, a re-export and a redefinition)",
    "C09-w7-1": "macro expansions at sealed call sites memoised per runtime: a list built by the expansion is the same object at every evaluation",
    "C11-w7-1": "to-bytes of a bytes value returns a new header over the argument's buffer, capacity not clamped",
    "C15-w7-2": "nested loads evaluate under the root environment's context: a sleep in a source loaded from a function body sees neither deadline nor cancellation",
    "C20-w7-1": "resolved relative location joined onto the root for the check and onto the working directory for the read",
    "C20-w7-2": "the free-text name of a source string (load-string :name, LoadString's name) is taken for a loading file: relative loads resolve against the label's directory",
    "C04-w8-1": "tail-call turn refactored into a helper returning a Go error: a budget or cancellation landing on exactly that step comes out re-wrapped under the condition name error",
    "C04-w8-2": "physical height check skipped when a logical limit at or below it is configured (the logical check fires two frames later)",
    "C05-w8-1": "handler-bind calls the handler through FunCall and pops the condition in straight-line code: a host builtin used as the handler that panics leaves the condition pending",
    "C05-w8-2": "quasiquote templates count against the evaluator nesting and an error inside an unquote returns without giving the level back",
    "C06-w8-1": "handler-bind evaluates every binding's handler expression up front, before the body",
    "C06-w8-2": "a host panic whose panic value is itself a lisp error (or the Go error of one) comes back as that ordinary error, not as internal-panic",
    "C08-w8-1": "unqualified names missing from the current package fall back to the language package's live export list",
    "C08-w8-2": "load restores the loader's package by plain assignment and returns early on an error",
    "C09-w8-1": "insert-sorted appends in place when the item sorts last: a literal's spare slot is written and an unsealed header over the program's storage returned",
    "C09-w8-2": "json:use-exact-integers also records its value process-wide and runtimes constructed later start from it",
    "C10-w8-1": "context-cancelled messages report how long the evaluation had been running (real clock)",
    "C10-w8-2": "apply with a bare list passes the list's own cells: a &rest callee that sorts in place reorders the literal of a parse shared by later fresh runtimes",
    "C11-w8-1": "reverse returns its argument when it has fewer than two elements and already the requested type",
    "C11-w8-2": "insert-sorted stores a copy of the inserted item instead of the caller's value",
    "C15-w8-1": "the default one-hour cap is dropped when the sleep builtin is called through a host binding that declares no :max formal",
    "C15-w8-2": "the default cap becomes a Runtime field that only the standard constructor fills in: runtimes assembled as composite literals have none",
    "C20-w8-1": "the target is read before the containment check (refused all the same, but the outside file has been opened and read)",
    "C20-w8-2": "fs.FS library does not prefix the loading file's directory when the location already starts with it",
    "C04-w9-1": "the threaded context is copied onto an environment only when it carries none: functions defined under another context ignore the caller's cancellation in operator sub-evaluations",
    "C05-w9-1": "Go stack of a recovered panic kept on the live stack and cleared by Pop: after a panic at stack height zero a forged internal-panic counts as a real one",
    "C06-w9-1": "a bare specifier also matches the condition <current package>:<specifier>",
    "C08-w9-1": "a function whose body is a single atom is evaluated before the switch to its defining package",
    "C09-w9-1": "gensym numbers drawn from a process-wide counter",
    "C10-w9-1": "json:use-exact-integers also becomes the default of runtimes created later in the process",
    "C11-w9-1": "keyed stable-sort installs a freshly allocated sorted slice into the target's header: views and aliases no longer see the sort",
    "C15-w9-1": "timer cap for contexts with a deadline but no Done channel written as a max: the sleep blocks until the deadline",
    "C20-w9-1": "root-relative fallback for locations that miss next to the loading file, never passed through link resolution",
    "C04-w10-1": "evaluator nesting cap cached on first use: a limit assigned to Runtime.MaxEvalNesting after an evaluation is ignored",
    "C05-w10-1": "load restores the environment's source location only when the load succeeded",
    "C06-w10-1": "error data that is a package-qualified symbol is treated as self-evaluating and reaches the handler evaluated",
    "C08-w10-1": "keyword references walk the lexical chain: a keyword spelled as a let variable or a formal is bound",
    "C09-w10-1": "select 'list returns a fresh unsealed header over the input's storage when nothing is dropped",
    "C10-w10-1": "package symbol listing sorted case-insensitively: names differing only in case come out in Go map order",
    "C11-w10-1": "map reuses one argument list for all elements: &rest lists kept by the callback are overwritten",
    "C15-w10-1": "sleeps under one millisecond take a plain time.Sleep before the context is consulted",
    "C20-w10-1": "relative resolved root and location compared by prefix again when both are relative",
}


def mutant_table():
    p = os.path.join(HERE, "mutants", "RESULTS.txt")
    rows = []
    if os.path.exists(p):
        for line in open(p, errors="replace"):
            m = re.match(r"(CAUGHT|MISSED|TROUBLE) ([^\s:]+):?\s*(?:oracle=(\S+))?", line.strip())
            if not m or m.group(2).startswith("seeded/"):
                continue
            rows.append((m.group(2), m.group(1), m.group(3) or ""))
    out = ["| mutant | quick check | oracle |", "|---|---|---|"]
    for name, verdict, oracle in rows:
        out.append("| %s | %s | %s |" % (name, verdict, oracle))
    caught = sum(1 for r in rows if r[1] == "CAUGHT")
    out.append("")
    out.append("%d of %d reported (the remaining ones are the equivalent mutants discussed below)." % (caught, len(rows)))
    return "\n".join(out)


def seed_table():
    now = {}
    p = os.path.join(HERE, "mutants", "RESULTS.txt")
    if os.path.exists(p):
        for line in open(p, errors="replace"):
            m = re.match(r"(CAUGHT|MISSED|TROUBLE) seeded/([^\s:]+):?\s*(?:oracle=(\S+))?", line.strip())
            if m:
                now[m.group(2)] = (m.group(1), m.group(3) or "")
    out = ["| seed | what the change does | first | now | oracle that fires |", "|---|---|---|---|---|"]
    names = sorted(os.path.basename(os.path.dirname(d)) for d in glob.glob(os.path.join(HERE, "seeded", "*", "")))
    for n in names:
        meta = json.load(open(os.path.join(HERE, "seeded", n, "meta.json")))
        verdict, oracle = now.get(n, (meta.get("check_result_quick", "?"), ""))
        if not oracle:
            mo = re.search(r"oracle=(\S+)", meta.get("check_oracle", ""))
            oracle = mo.group(1) if mo else ""
        out.append("| %s | %s | %s | %s | %s |" % (n, WHAT.get(n, ""), "MISSED" if n in FIRST_MISSED else "CAUGHT", verdict, oracle))
    firstc = sum(1 for n in names if n not in FIRST_MISSED)
    nowc = sum(1 for n in names if now.get(n, ("CAUGHT",))[0] == "CAUGHT")
    out.append("")
    out.append("%d seeds; %d caught on arrival, %d caught by the checks as they stand." % (len(names), firstc, nowc))
    return "\n".join(out)


def seeded_results():
    p = os.path.join(HERE, "mutants", "RESULTS.txt")
    rows = {}
    if os.path.exists(p):
        for line in open(p, errors="replace"):
            m = re.match(r"(CAUGHT|MISSED|TROUBLE) seeded/([^\s:]+):?\s*(.*)", line.strip())
            if m:
                rows[m.group(2)] = (m.group(1), m.group(3).strip()[:170])
    out = ["# Seeded changes (independent sub-agents) vs the current checks", "",
           "Every entry was confirmed in a scratch worktree by tools/seed_verify.sh (demo passes on the unchanged tree, fails with the patch; existing ./lisp/... ./parser/... tests pass with the patch) and then run against the property's quick check (tools/mutants_run.sh).  `first` = result when the seed was first tried, before any strengthening it prompted (see DESIGN.md section 10.4).", "",
           "| seed | property | first | quick check now | oracle that fires |", "|---|---|---|---|---|"]
    for n in sorted(rows):
        v, o = rows[n]
        out.append("| %s | %s | %s | %s | %s |" % (n, n[:3], "MISSED" if n in FIRST_MISSED else "CAUGHT", v, o.replace("|", "/")))
    open(os.path.join(HERE, "seeded", "RESULTS.md"), "w").write("\n".join(out) + "\n")


def main():
    seeded_results()
    p = os.path.join(HERE, "DESIGN.md")
    s = open(p).read()
    for marker, text in (("MUTANT-TABLE", mutant_table()), ("SEED-TABLE", seed_table())):
        start = "<!-- %s -->" % marker
        end = "<!-- /%s -->" % marker
        block = start + "\n" + text + "\n" + end
        if end in s:
            s = re.sub(re.escape(start) + r".*?" + re.escape(end), lambda m: block, s, flags=re.S)
        else:
            s = s.replace(start, block)
    open(p, "w").write(s)
    print("tables written")


if __name__ == "__main__":
    main()
