#!/bin/sh
# usage: tools/mutants_run.sh <Cxx> [tier] [patch-glob]
# Runs the property's check against every matching mutant patch, each applied
# to its own scratch worktree of /repo (outside /repo and /verif), removed
# afterwards.  Prints one line per mutant: CAUGHT / MISSED / TROUBLE.
prop=$1; tier=${2:-quick}; glob=${3:-$(echo "$prop" | tr 'A-Z' 'a-z')-*.diff}
for patch in /verif/mutants/$glob /verif/seeded/*/patch.diff; do
  [ -f "$patch" ] || continue
  case "$patch" in
    /verif/seeded/*) grep -q "\"property\": *\"$prop\"" "$(dirname "$patch")/meta.json" 2>/dev/null || continue; name=seeded/$(basename "$(dirname "$patch")");;
    *) name=$(basename "$patch" .diff);;
  esac
  wt=$(mktemp -d /tmp/mut-XXXXXX)
  git -C /repo worktree add -q --detach "$wt/repo" HEAD >/dev/null 2>&1 || { echo "TROUBLE $name: worktree"; rm -rf "$wt"; continue; }
  if ! git -C "$wt/repo" apply "$patch" 2>/dev/null; then echo "TROUBLE $name: patch does not apply"; else
    VERIF_REPO="$wt/repo" VERIF_SCRATCH="$wt/out" sh -c "mkdir -p $wt/out && cd /verif && ./check $prop $tier" > "$wt/log" 2>&1
    rc=$?
    case $rc in
      1) echo "CAUGHT $name: $(grep -a -m1 '  oracle=' "$wt/log" | cut -c1-220)";;
      0) echo "MISSED $name";;
      *) echo "TROUBLE $name (exit $rc): $(grep -m2 -E 'TROUBLE|BUILD-ERROR' "$wt/log" | tr '\n' ' ' | cut -c1-300)";;
    esac
  fi
  git -C /repo worktree remove --force "$wt/repo" >/dev/null 2>&1
  rm -rf "$wt"
done
