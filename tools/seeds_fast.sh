#!/bin/sh
# usage: tools/seeds_fast.sh [glob] [tier] [parallel]
# Runs only step 4 of seed_verify.sh (the property's check against the patched
# tree) for every filed seed, several at a time, each in its own scratch
# worktree that is removed afterwards.  Prints one line per seed and updates
# meta.json's check_result_quick / check_oracle (tier quick only).
glob=${1:-*}; tier=${2:-quick}; par=${3:-3}
one() {
  d=$1; tier=$2
  name=$(basename "$d")
  prop=$(python3 -c "import json;print(json.load(open('$d/meta.json'))['property'])")
  wt=$(mktemp -d /tmp/sf-XXXXXX)
  git -C /repo worktree add -q --detach "$wt/repo" HEAD || { echo "RESULT $name TROUBLE worktree"; return; }
  if git -C "$wt/repo" apply "$d/patch.diff" 2>/dev/null; then
    mkdir -p "$wt/out"
    ( cd /verif && VERIF_SEED=${VERIF_SEED:-1} VERIF_REPO="$wt/repo" VERIF_SCRATCH="$wt/out" ./check "$prop" "$tier" ) > "$wt/check.log" 2>&1
    rc=$?
    oracle=$(grep -a -m1 '  oracle=' "$wt/check.log" | cut -c1-300)
    case $rc in 1) v=CAUGHT;; 0) v=MISSED;; *) v="TROUBLE($rc)";; esac
    echo "RESULT $name $v $oracle"
    if [ "$tier" = quick ] && [ "${VERIF_SEED:-1}" = 1 ] && [ $rc -le 1 ]; then
      python3 - "$d/meta.json" "$v" "$oracle" <<'PY'
import json,sys
p,v,o=sys.argv[1:4]
m=json.load(open(p)); m["check_result_quick"]=v; m["check_oracle"]=o.strip()
json.dump(m,open(p,"w"),indent=1)
PY
    fi
    [ $rc -gt 1 ] && tail -5 "$wt/check.log"
  else
    echo "RESULT $name TROUBLE patch does not apply"
  fi
  git -C /repo worktree remove --force "$wt/repo" >/dev/null 2>&1; rm -rf "$wt"
}
n=0
for d in /verif/seeded/$glob/; do
  [ -f "$d/meta.json" ] || continue
  one "${d%/}" "$tier" &
  n=$((n+1))
  if [ $((n % par)) -eq 0 ]; then wait; fi
done
wait
