#!/bin/sh
# usage: tools/seed_verify.sh <srcdir> <Cxx> <name> <demo-destination-relative-to-repo> [test-packages] [demo-go-test-flags]
# Confirms a seeded property-breaking change produced by a sub-agent:
#   1. the demonstration passes on the unchanged tree,
#   2. the patch applies, the tree builds, the demonstration fails with it,
#   3. the existing tests of the given packages still pass with it,
#   4. runs the property's quick check against it (CAUGHT / MISSED),
# all in a scratch worktree that is removed afterwards, then files the change
# under /verif/seeded/<name>/ (patch.diff, demo, notes.md, meta.json).
src=$1; prop=$2; name=$3; dest=$4; pkgs=${5:-./lisp/... ./parser/...}; dflags=${6:-}
export GOFLAGS=-mod=mod GOPROXY=off
unset GOTOOLCHAIN
wt=$(mktemp -d /tmp/sv-XXXXXX)
git -C /repo worktree add -q --detach "$wt/repo" HEAD || exit 2
cleanup() { git -C /repo worktree remove --force "$wt/repo" >/dev/null 2>&1; rm -rf "$wt"; }
demo=$(ls "$src"/demo*_test.go | head -1)
demopkg=$(dirname "$dest")
cp "$demo" "$wt/repo/$dest"
( cd "$wt/repo" && go test -vet=off -count=1 $dflags -run 'Demo|Seed|C[0-9][0-9]|ZZ|Zz' "./$demopkg/" ) > "$wt/demo_clean.log" 2>&1
rc_clean=$?
# some demos use other test names: fall back to running the whole demo file's package tests matching its Test functions
tests=$(grep -ho '^func Test[A-Za-z0-9_]*' "$demo" | sed 's/func //' | paste -sd'|' -)
( cd "$wt/repo" && go test -vet=off -count=1 $dflags -run "^($tests)\$" "./$demopkg/" ) > "$wt/demo_clean.log" 2>&1
rc_clean=$?
if ! git -C "$wt/repo" apply "$src/patch.diff"; then echo "RESULT $name: patch does not apply"; cleanup; exit 2; fi
( cd "$wt/repo" && go build ./... ) > "$wt/build.log" 2>&1 || { echo "RESULT $name: does not build"; tail -5 "$wt/build.log"; cleanup; exit 2; }
( cd "$wt/repo" && go test -vet=off -count=1 $dflags -run "^($tests)\$" "./$demopkg/" ) > "$wt/demo_patched.log" 2>&1
rc_patched=$?
rm -f "$wt/repo/$dest"
( cd "$wt/repo" && go test -vet=off -count=1 $pkgs ) > "$wt/suite.log" 2>&1
rc_suite=$?
mkdir -p "$wt/out"
( cd /verif && VERIF_REPO="$wt/repo" VERIF_SCRATCH="$wt/out" ./check "$prop" quick ) > "$wt/check.log" 2>&1
rc_check=$?
oracle=$(grep -a -m1 '  oracle=' "$wt/check.log" | cut -c1-400)
case $rc_check in 1) verdict=CAUGHT;; 0) verdict=MISSED;; *) verdict="TROUBLE($rc_check)";; esac
echo "RESULT $name: demo_on_clean=$rc_clean(want 0) demo_with_patch=$rc_patched(want !=0) existing_tests_with_patch=$rc_suite(want 0) check=$verdict $oracle"
[ $rc_suite -ne 0 ] && grep -a -E '^(--- FAIL|FAIL|ok )' "$wt/suite.log" | grep -v '^ok' | head -5
[ $rc_clean -ne 0 ] && tail -5 "$wt/demo_clean.log"
if [ $rc_clean -eq 0 ] && [ $rc_patched -ne 0 ] && [ $rc_suite -eq 0 ]; then
  d=/verif/seeded/$name
  mkdir -p "$d"
  cp "$src/patch.diff" "$d/patch.diff"
  cp "$src"/demo*_test.go "$d/" 2>/dev/null
  cp "$src/notes.md" "$d/notes.md" 2>/dev/null
  python3 - "$d" "$prop" "$name" "$dest" "$pkgs" "$verdict" "$oracle" <<'EOF'
import json, sys, os, re
d, prop, name, dest, pkgs, verdict, oracle = sys.argv[1:8]
notes = open(os.path.join(d, "notes.md")).read() if os.path.exists(os.path.join(d, "notes.md")) else ""
meta = {
    "property": prop,
    "name": name,
    "source": "independent sub-agent given only the property text and a scratch worktree",
    "demo_destination": dest,
    "needs_to_manifest": "see notes.md",
    "confirmed": {
        "demo_passes_on_unchanged_tree": True,
        "demo_fails_with_patch": True,
        "existing_tests_pass_with_patch": pkgs,
        "how": "tools/seed_verify.sh in a scratch worktree of /repo HEAD (go test -vet=off -count=1)",
    },
    "check_result_quick": verdict,
    "check_oracle": oracle.strip(),
}
old = os.path.join(d, "meta.json")
if os.path.exists(old):
    try:
        prev = json.load(open(old))
        if "ported" in prev:
            meta["ported"] = prev["ported"]
    except Exception:
        pass
json.dump(meta, open(old, "w"), indent=1)
EOF
  echo "FILED $d"
else
  echo "NOT-FILED $name (confirmation failed)"
fi
cleanup
