#!/bin/sh
# usage: tools/seed_sweep.sh "<seeds>" [tier]
# Runs every registered check on the unchanged tree for several VERIF_SEED
# values: any exit status other than 0 is a false alarm (or a new finding) to
# triage.  Evidence files are restored afterwards.
seeds=${1:-"2 3 4 5"}; tier=${2:-quick}
cd /verif
for s in $seeds; do
  for p in C04 C05 C06 C08 C09 C10 C11 C15 C20; do
    VERIF_SEED=$s ./check $p $tier > /tmp/sweep.$p.$s.log 2>&1
    rc=$?
    echo "seed=$s $p exit=$rc $(grep -a SUMMARY /tmp/sweep.$p.$s.log | cut -c1-160)"
    [ $rc -ne 0 ] && grep -a "oracle=\|TROUBLE" /tmp/sweep.$p.$s.log | head -3 | cut -c1-300
  done
done
git checkout -- evidence 2>/dev/null
