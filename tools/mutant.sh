#!/bin/sh
# usage: tools/mutant.sh <patch.diff> <Cxx> [tier]
# Applies a deliberate property-breaking change to /repo, runs the property's
# check, and undoes the change.  Exit status is the check's.
set -u
patch=$1; prop=$2; tier=${3:-quick}
cd /repo || exit 2
if [ -n "$(git status --porcelain)" ]; then echo "repo not clean" >&2; exit 2; fi
git apply "$patch" || { echo "patch does not apply" >&2; exit 2; }
cd /verif && ./check "$prop" "$tier" > "/tmp/mutant.$$.log" 2>&1
rc=$?
git -C /repo checkout -- . 
grep -E "^(VIOLATION|SUMMARY|  oracle|TROUBLE|BUILD-ERROR)" "/tmp/mutant.$$.log" | head -8
rm -f "/tmp/mutant.$$.log"
# restore the evidence file written by the mutant run
git -C /verif checkout -- evidence 2>/dev/null
exit $rc
