#!/bin/sh
# Re-confirms every filed seeded change against the CURRENT /repo HEAD:
# patch applies, demo passes without / fails with it, existing tests pass, and
# the property's quick check reports it.  Prints one RESULT line per seed.
for d in /verif/seeded/*/; do
  name=$(basename "$d")
  [ -f "$d/meta.json" ] || continue
  prop=$(python3 -c "import json;print(json.load(open('$d/meta.json'))['property'])")
  dest=$(python3 -c "import json;print(json.load(open('$d/meta.json'))['demo_destination'])")
  flags=""
  case "$name" in C09-w2-3) flags="-race";; esac
  /verif/tools/seed_verify.sh "$d" "$prop" "$name" "$dest" "./lisp/... ./parser/..." "$flags" 2>&1 | grep -a "^RESULT\|NOT-FILED" | cut -c1-260
done
