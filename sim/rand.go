package sim

// Rand is a SplitMix64 stream.  It is the only source of choices in the
// simulator: one integer (VERIF_SEED) decides everything.
type Rand struct{ s uint64 }

func mix64(z uint64) uint64 {
	z += 0x9e3779b97f4a7c15
	z = (z ^ (z >> 30)) * 0xbf58476d1ce4e5b9
	z = (z ^ (z >> 27)) * 0x94d049bb133111eb
	return z ^ (z >> 31)
}

// NewRand derives the sub-stream for (seed, engine, case index).
func NewRand(seed uint64, engine string, idx uint64) *Rand {
	h := mix64(seed)
	for i := 0; i < len(engine); i++ {
		h = mix64(h ^ uint64(engine[i]))
	}
	h = mix64(h ^ mix64(idx))
	return &Rand{s: h}
}

func (r *Rand) U64() uint64 {
	r.s += 0x9e3779b97f4a7c15
	z := r.s
	z = (z ^ (z >> 30)) * 0xbf58476d1ce4e5b9
	z = (z ^ (z >> 27)) * 0x94d049bb133111eb
	return z ^ (z >> 31)
}

// Intn returns a value in [0,n).  n<=0 yields 0.
func (r *Rand) Intn(n int) int {
	if n <= 1 {
		return 0
	}
	return int(r.U64() % uint64(n))
}

// Range returns a value in [lo,hi].
func (r *Rand) Range(lo, hi int) int {
	if hi <= lo {
		return lo
	}
	return lo + r.Intn(hi-lo+1)
}

func (r *Rand) I63n(n int64) int64 {
	if n <= 1 {
		return 0
	}
	return int64(r.U64() % uint64(n))
}

// Chance is true with probability num/den.
func (r *Rand) Chance(num, den int) bool { return r.Intn(den) < num }

func (r *Rand) Bool() bool { return r.U64()&1 == 1 }

// Pick returns a weighted index.
func (r *Rand) Pick(weights []int) int {
	tot := 0
	for _, w := range weights {
		tot += w
	}
	if tot <= 0 {
		return 0
	}
	x := r.Intn(tot)
	for i, w := range weights {
		if x < w {
			return i
		}
		x -= w
	}
	return len(weights) - 1
}

func PickStr(r *Rand, xs []string) string { return xs[r.Intn(len(xs))] }

// Fork derives an independent stream (used so that adding draws in one part
// of a generator does not shift every later choice).
func (r *Rand) Fork() *Rand { return &Rand{s: mix64(r.U64())} }

// FNV-1a incremental hash used for event logs.
type Hash uint64

const fnvOff Hash = 14695981039346656037

func NewHash() Hash { return fnvOff }
func (h Hash) Str(s string) Hash {
	for i := 0; i < len(s); i++ {
		h ^= Hash(s[i])
		h *= 1099511628211
	}
	h ^= 0xff
	h *= 1099511628211
	return h
}
func (h Hash) Int(v int64) Hash {
	u := uint64(v)
	for i := 0; i < 8; i++ {
		h ^= Hash(u & 0xff)
		h *= 1099511628211
		u >>= 8
	}
	return h
}
