package sim

import (
	"encoding/json"
	"fmt"
	"regexp"
	"strconv"
	"strings"

	"github.com/luthersystems/elps/lisp"
)

// Engine E3 `conditions` — property C06.  Programs from a restricted grammar
// are evaluated by the real interpreter and by an executable reference model
// of the condition system written from docs/lang.md ("Errors", "Rethrowing
// Errors", "Host Panics") and the property text.

type CondCase struct {
	Knobs  Knobs       `json:"knobs"`
	Forms  []*Node     `json:"forms"`
	Faults []FaultSpec `json:"faults,omitempty"`
}

type condEngine struct{}

func init() { Register(condEngine{}) }

func (condEngine) Name() string     { return "conditions" }
func (condEngine) Property() string { return "C06" }
func (condEngine) NumCases(tier string) int {
	if tier == "thorough" {
		return 6000000
	}
	return 60000
}
func (condEngine) Decode(raw []byte) (any, error) {
	c := &CondCase{}
	return c, json.Unmarshal(raw, c)
}

const condPrelude = `(defun hh (c &rest d) (list 'hh c d))
(defmacro mm (x) (quasiquote (list 1 (unquote x))))`

var condAlphabet = []string{"e1", "e2", "internal-panic", "condition"}

// names the interpreter uses for its own errors: raised from lisp they are
// ordinary conditions like any other
var interpreterConds = []string{"context-cancelled", "step-limit-exceeded", "eval-nesting-exceeded", "sleep-limit-exceeded", "error", "stack-overflow", "unbound-symbol"}

func (g *condGen) cond() string {
	if g.r.Chance(1, 7) {
		return PickStr(g.r, interpreterConds)
	}
	if g.r.Chance(1, 6) {
		// package-qualified spellings are different names: a specifier matches
		// a condition only when the two are equal
		return "user:" + PickStr(g.r, condAlphabet)
	}
	return PickStr(g.r, condAlphabet)
}

// isScramble recognises the scrambleData statement, also after it went
// through a nested source string and was parsed back into a list.
func isScramble(n *Node) bool {
	if !n.IsL {
		return strings.HasPrefix(n.Atom, "(progn (ignore-errors (map 'list (lambda (zx)")
	}
	return n.Head() == "progn" && len(n.List) == 3 && n.List[1].IsL && n.List[1].Head() == "ignore-errors" && len(n.List[1].List) == 2 &&
		n.List[1].List[1].IsL && n.List[1].List[1].Head() == "map" && n.List[2].IsL && len(n.List[2].List) == 0
}

// scrambleData is a handler statement that changes, in place, every list it
// was handed as error data.  The error being handled is not its arguments: a
// later rethrow carries the data the error was raised with.
func scrambleData(dvar string) *Node {
	return A(fmt.Sprintf("(progn (ignore-errors (map 'list (lambda (zx) (ignore-errors (stable-sort > zx)) ()) %s)) ())", dvar))
}

// ---------------------------------------------------------------- generator

type condGen struct {
	hostH bool // a host builtin is used as a handler somewhere
	r     *Rand
	vars  []string
	fpN   int
	prN   int
	symN  int
	inH   int // handler nesting depth at this point of the text
	bud   int
}

func (g *condGen) fp(n *Node) *Node {
	g.fpN++
	if g.r.Chance(1, 4) {
		return Call("sim:fpo", I(g.fpN), n) // the fault point as a host special operator
	}
	return Call("sim:fp", I(g.fpN), n)
}

func (g *condGen) probe(n *Node) *Node {
	g.prN++
	return Call("sim:probe", QS(fmt.Sprintf("t%d", g.prN)), n)
}

func (g *condGen) atom() *Node {
	if len(g.vars) > 0 && g.r.Chance(1, 2) {
		return A(PickStr(g.r, g.vars))
	}
	return I(g.r.Range(0, 9))
}

func (g *condGen) F(d int) *Node {
	g.bud--
	if d <= 0 || g.bud <= 0 {
		if g.r.Chance(1, 4) {
			return g.fp(g.atom())
		}
		return g.atom()
	}
	w := []int{3, 8, 8, 6, 3, 4, 3, 9, 14, 6, 2, 3, 3, 3, 3, 2}
	if g.inH == 0 {
		w[10] = 1 // rethrow outside a handler: rare but present
	} else {
		w[10] = 6
	}
	switch g.r.Pick(w) {
	case 0:
		return g.atom()
	case 1:
		return g.fp(g.F(d - 1))
	case 2:
		return g.probe(g.F(d - 1))
	case 3:
		return g.seq("progn", d)
	case 4:
		v := fmt.Sprintf("v%d", g.symN)
		g.symN++
		init := g.F(d - 1)
		g.vars = append(g.vars, v)
		body := g.F(d - 1)
		g.vars = g.vars[:len(g.vars)-1]
		return L(A("let"), L(L(A(v), init)), body)
	case 5:
		return Call("list", g.F(d-1), g.F(d-1))
	case 6:
		return Call("if", g.F(d-1), g.F(d-1), g.F(d-1))
	case 7:
		c := g.cond()
		n := g.r.Pick([]int{2, 5, 2})
		xs := []*Node{A("error"), QS(c)}
		for i := 0; i < n; i++ {
			if g.r.Chance(1, 5) {
				// data taken out of a quoted literal: an unquoted list or symbol VALUE
				xs = append(xs, Call("car", Q(L(PickNode(g.r, L(A("+"), I(1), I(2)), A("zz"), L(A("list"), I(4)), L(A("sim:probe"), Str("leak"), I(1)), I(5), A("lisp:car"), A("nosuchpkg:thing"), A("user:zz"), A(":kw")), I(0)))))
			} else {
				xs = append(xs, g.F(d-2))
			}
		}
		return L(xs...)
	case 8:
		return g.handlerBind(d)
	case 9:
		return g.seq("ignore-errors", d)
	case 10:
		return Call("rethrow")
	case 11:
		return Call("sim:snap")
	case 12:
		return Call("funcall", L(A("lambda"), L(), g.F(d-1)))
	case 13:
		save, saveH := g.vars, g.inH
		g.vars = nil // nested source is evaluated in the root environment
		src := g.F(d - 1).String()
		g.vars, g.inH = save, saveH
		return Call("load-string", Str(src))
	case 14:
		return L(A("dotimes"), L(A(fmt.Sprintf("i%d", g.symN)), I(2)), g.F(d-1))
	default:
		return Call("mm", g.F(d-1))
	}
}

func (g *condGen) seq(head string, d int) *Node {
	n := g.r.Range(1, 3)
	xs := []*Node{A(head)}
	for i := 0; i < n; i++ {
		xs = append(xs, g.F(d-1))
	}
	return L(xs...)
}

func (g *condGen) handlerBind(d int) *Node {
	nb := g.r.Pick([]int{1, 6, 4, 2})
	var binds []*Node
	for i := 0; i < nb; i++ {
		spec := g.cond()
		binds = append(binds, L(A(spec), g.H(d-1)))
	}
	xs := []*Node{A("handler-bind"), L(binds...)}
	n := g.r.Range(1, 3)
	for i := 0; i < n; i++ {
		xs = append(xs, g.F(d-1))
	}
	return L(xs...)
}

// H generates a handler expression.
func (g *condGen) H(d int) *Node {
	switch g.r.Pick([]int{10, 2, 2, 2, 1, 1, 2, 2, 2}) {
	case 8:
		// the handler is a host builtin (which is itself a fault point)
		g.hostH = true
		return A(PickStr(g.r, []string{"sim:hf1", "sim:hf2"}))
	case 7:
		// a handler given by a name that is bound to nothing: an error, but
		// only if and when its binding is selected
		return A("hh-nope")
	case 6:
		// a handler expression that does something before yielding the handler
		return Call("progn", g.F(d-1), A("hh"))
	case 0:
		c, dd := fmt.Sprintf("c%d", g.symN), fmt.Sprintf("d%d", g.symN)
		g.symN++
		g.vars = append(g.vars, c, dd)
		g.inH++
		n := g.r.Range(1, 2)
		xs := []*Node{A("lambda"), L(A(c), A("&rest"), A(dd))}
		if g.r.Chance(1, 3) {
			// the documented logging-handler shape: look, then re-raise
			xs = append(xs, g.probe(Call("list", A(c), A(dd))), Call("sim:snap"))
			if g.r.Chance(1, 3) {
				xs = append(xs, g.F(d-1))
			}
			if g.r.Chance(1, 2) {
				xs = append(xs, scrambleData(dd))
			}
			xs = append(xs, Call("rethrow"))
			n = 0
		}
		for i := 0; i < n; i++ {
			xs = append(xs, g.F(d-1))
		}
		g.inH--
		g.vars = g.vars[:len(g.vars)-2]
		return L(xs...)
	case 1:
		c := fmt.Sprintf("c%d", g.symN)
		g.symN++
		g.vars = append(g.vars, c)
		g.inH++
		body := g.F(d - 1)
		g.inH--
		g.vars = g.vars[:len(g.vars)-1]
		return L(A("lambda"), L(A(c)), body)
	case 2:
		return A("hh")
	case 3:
		return g.fp(A("hh"))
	case 4:
		return I(7)
	default:
		return L(A("lambda"), L(), g.F(d-1))
	}
}

func (condEngine) Gen(r *Rand, tier string) any {
	c := &CondCase{}
	c.Knobs.TRO = PickStr(r, []string{"", "", "debugger", "profiler"})
	g := &condGen{r: r, bud: r.Range(25, 80)}
	n := r.Range(1, 2)
	for i := 0; i < n; i++ {
		c.Forms = append(c.Forms, g.probe(g.F(r.Range(3, 6))))
	}
	// arm up to 3 of the fault points
	if g.fpN == 0 && g.hostH {
		g.fpN = 1
	}
	if g.fpN > 0 {
		na := r.Pick([]int{2, 5, 3, 2})
		for i := 0; i < na; i++ {
			f := FaultSpec{FP: r.Range(1, g.fpN), Hit: r.Pick([]int{0, 8, 2, 1})}
			if g.hostH && r.Chance(1, 3) {
				f.FP = r.Range(91, 92)
			}
			switch r.Pick([]int{5, 5, 1, 1}) {
			case 3:
				// a defective host builtin returns an error value with a Go
				// nil among its data cells: outside the reference model (the
				// comparison is skipped when it fires), but whatever happens,
				// no condition may be left behind for a later rethrow
				f.Kind = "baddata"
			case 0:
				f.Kind = "error"
				f.Cond = PickStr(r, condAlphabet)
				if r.Chance(1, 6) {
					f.Cond = "user:" + f.Cond
				}
				nd := r.Range(0, 2)
				for j := 0; j < nd; j++ {
					if r.Bool() {
						f.Data = append(f.Data, fmt.Sprint(r.Intn(50)))
					} else {
						f.Data = append(f.Data, PickStr(r, []string{"abc", "x y", "boom"}))
					}
				}
			case 1:
				f.Kind = "panic"
				f.With = PickStr(r, []string{"", "", "lval", "goerr", "int", "runtime"})
			default:
				f.Kind = "nil"
			}
			c.Faults = append(c.Faults, f)
		}
	}
	return c
}

// ------------------------------------------------------------------- model

type mkind int

const (
	mNil mkind = iota
	mInt
	mSym
	mStr
	mList
	mFun
	mWild // a message string produced by the interpreter itself: matches any string
)

type mval struct {
	k  mkind
	i  int
	s  string
	l  []mval
	fn *mfun
}

type mfun struct {
	params []string
	rest   string
	body   []*Node
	env    *menv
	native string
}

type menv struct {
	vars   map[string]mval
	parent *menv
}

func (e *menv) get(name string) (mval, bool) {
	for ; e != nil; e = e.parent {
		if v, ok := e.vars[name]; ok {
			return v, true
		}
	}
	return mval{}, false
}

func (v mval) render() string {
	switch v.k {
	case mNil:
		return "()"
	case mInt:
		return strconv.Itoa(v.i)
	case mSym:
		return v.s
	case mStr:
		return strconv.Quote(v.s)
	case mList:
		if len(v.l) == 0 {
			return "()"
		}
		parts := make([]string, len(v.l))
		for i, x := range v.l {
			parts[i] = x.render()
		}
		return "(" + strings.Join(parts, " ") + ")"
	case mWild:
		return "\x00"
	default:
		return "<fun>"
	}
}

// wildEq compares a rendering from the interpreter with one from the model,
// where the model's wildcard matches any one string literal.
func wildEq(real, model string) bool {
	if !strings.Contains(model, "\x00") {
		return real == model
	}
	re := strings.ReplaceAll(regexp.QuoteMeta(model), "\x00", `"(?:[^"\\]|\\.)*"`)
	ok, err := regexp.MatchString("^"+re+"$", real)
	return err == nil && ok
}

func (v mval) truthy() bool { return !(v.k == mNil || (v.k == mList && len(v.l) == 0)) }

type mraise struct {
	id        int
	cond      string
	data      []mval
	fromPanic bool
	interp    bool // raised by the interpreter itself: only the condition name is compared
}

type cmodel struct {
	faults    []FaultSpec
	fpHits    map[int]int
	trace     []string
	condStack []*mraise
	snaps     []*mraise
	raiseN    int
	root      *menv
	stats     map[string]int
	steps     int
}

func (m *cmodel) raise(cond string, data []mval) *mraise {
	m.raiseN++
	return &mraise{id: m.raiseN, cond: cond, data: data}
}

// fpDecide counts a hit of fault point id and says what the fault plan makes
// of it.
func (m *cmodel) fpDecide(id int) (*mraise, bool) {
	m.fpHits[id]++
	for _, f := range m.faults {
		if f.FP == id && f.Hit == m.fpHits[id] {
			switch f.Kind {
			case "panic":
				x := m.raise("internal-panic", []mval{{k: mWild}})
				x.fromPanic = true
				return x, true
			case "nil":
				return m.interpErr(), true
			default:
				var data []mval
				for _, d := range f.Data {
					if i, err := strconv.Atoi(d); err == nil && strconv.Itoa(i) == d {
						data = append(data, mval{k: mInt, i: i})
					} else {
						data = append(data, mval{k: mStr, s: d})
					}
				}
				cond := f.Cond
				if cond == "" {
					cond = "sim-fault"
				}
				return m.raise(cond, data), true
			}
		}
	}
	return nil, false
}

func (m *cmodel) interpErr() *mraise {
	r := m.raise("error", []mval{{k: mWild}})
	r.interp = true
	return r
}

func (m *cmodel) evalSeq(forms []*Node, env *menv) (mval, *mraise) {
	v := mval{}
	for _, f := range forms {
		var r *mraise
		v, r = m.eval(f, env)
		if r != nil {
			return mval{}, r
		}
	}
	return v, nil
}

func (m *cmodel) eval(n *Node, env *menv) (mval, *mraise) {
	m.steps++
	if isScramble(n) {
		return mval{}, nil // no effect on the error being handled, value ()
	}
	if !n.IsL {
		if i, err := strconv.Atoi(n.Atom); err == nil {
			return mval{k: mInt, i: i}, nil
		}
		if v, ok := env.get(n.Atom); ok {
			return v, nil
		}
		if n.Atom == "hh" || n.Atom == "sim:hf1" || n.Atom == "sim:hf2" {
			return mval{k: mFun, fn: &mfun{native: n.Atom}}, nil
		}
		return mval{}, m.interpErr() // unbound symbol
	}
	if len(n.List) == 0 {
		return mval{}, nil
	}
	head := n.Head()
	args := n.List[1:]
	switch head {
	case "quote":
		return quoteVal(args[0]), nil
	case "car":
		v, r := m.eval(args[0], env)
		if r != nil {
			return v, r
		}
		if v.k == mList && len(v.l) > 0 {
			return v.l[0], nil
		}
		if v.k == mNil || v.k == mList {
			return mval{}, nil
		}
		return mval{}, m.interpErr()
	case "sim:fp", "sim:fpo":
		var v mval
		if head == "sim:fp" {
			var r *mraise
			v, r = m.eval(args[1], env)
			if r != nil {
				return v, r
			}
		}
		id, _ := strconv.Atoi(args[0].Atom)
		if x, fired := m.fpDecide(id); fired {
			return mval{}, x
		}
		if head == "sim:fpo" {
			return m.eval(args[1], env)
		}
		return v, nil
	case "sim:probe":
		v, r := m.eval(args[1], env)
		if r != nil {
			return v, r
		}
		m.trace = append(m.trace, args[0].List[1].Atom+" "+v.render())
		return v, nil
	case "sim:snap":
		var top *mraise
		if n := len(m.condStack); n > 0 {
			top = m.condStack[n-1]
		}
		m.snaps = append(m.snaps, top)
		return mval{k: mInt, i: len(m.snaps)}, nil
	case "progn":
		return m.evalSeq(args, env)
	case "let":
		ne := &menv{vars: map[string]mval{}, parent: env}
		for _, b := range args[0].List {
			v, r := m.eval(b.List[1], env)
			if r != nil {
				return v, r
			}
			ne.vars[b.List[0].Atom] = v
		}
		return m.evalSeq(args[1:], ne)
	case "list":
		out := mval{k: mList}
		for _, a := range args {
			v, r := m.eval(a, env)
			if r != nil {
				return v, r
			}
			out.l = append(out.l, v)
		}
		if len(out.l) == 0 {
			return mval{}, nil
		}
		return out, nil
	case "if":
		c, r := m.eval(args[0], env)
		if r != nil {
			return c, r
		}
		if c.truthy() {
			return m.eval(args[1], env)
		}
		return m.eval(args[2], env)
	case "error":
		var data []mval
		for _, a := range args[1:] {
			v, r := m.eval(a, env)
			if r != nil {
				return v, r
			}
			data = append(data, v)
		}
		return mval{}, m.raise(args[0].List[1].Atom, data)
	case "rethrow":
		if n := len(m.condStack); n > 0 {
			m.stats["reach_rethrow_in_handler"]++
			if n > 1 {
				m.stats["reach_rethrow_from_nested_handler"]++
			}
			return mval{}, m.condStack[n-1]
		}
		m.stats["reach_rethrow_outside_handler"]++
		return mval{}, m.interpErr()
	case "ignore-errors":
		v := mval{}
		for _, f := range args {
			var r *mraise
			v, r = m.eval(f, env)
			if r != nil {
				if r.fromPanic {
					m.stats["reach_panic_met_ignore_errors"]++
					return mval{}, r
				}
				if r.cond == "internal-panic" {
					m.stats["reach_forged_panic_swallowed"]++
				}
				return mval{}, nil
			}
		}
		return v, nil
	case "handler-bind":
		v := mval{}
		for _, f := range args[1:] {
			var r *mraise
			v, r = m.eval(f, env)
			if r == nil {
				continue
			}
			for bi, b := range args[0].List {
				spec := b.List[0].Atom
				if spec != r.cond && (spec != "condition" || r.fromPanic) {
					if spec == "condition" && r.fromPanic {
						m.stats["reach_panic_met_condition"]++
					}
					continue
				}
				if r.fromPanic {
					m.stats["reach_panic_matched_by_name"]++
				}
				for _, b2 := range args[0].List[bi+1:] {
					if b2.List[0].Atom == spec {
						m.stats["reach_first_of_duplicate_bindings"]++
						break
					}
				}
				// evaluate the handler expression now
				hv, hr := m.eval(b.List[1], env)
				if hr != nil {
					m.stats["reach_error_in_handler_expression"]++
					return mval{}, hr
				}
				if hv.k != mFun {
					m.stats["reach_non_function_handler"]++
					return mval{}, m.interpErr()
				}
				m.condStack = append(m.condStack, r)
				cargs := append([]mval{{k: mSym, s: r.cond}}, r.data...)
				res, rr := m.callFun(hv.fn, cargs)
				m.condStack = m.condStack[:len(m.condStack)-1]
				return res, rr
			}
			return mval{}, r
		}
		return v, nil
	case "funcall":
		fv, r := m.eval(args[0], env)
		if r != nil {
			return fv, r
		}
		return m.callFun(fv.fn, nil)
	case "lambda":
		f := &mfun{env: env, body: args[1:]}
		ps := args[0].List
		for i := 0; i < len(ps); i++ {
			if ps[i].Atom == "&rest" {
				f.rest = ps[i+1].Atom
				break
			}
			f.params = append(f.params, ps[i].Atom)
		}
		return mval{k: mFun, fn: f}, nil
	case "load-string":
		src, err := strconv.Unquote(args[0].Atom)
		if err != nil {
			return mval{}, m.interpErr()
		}
		form, perr := ParseNode(src)
		if perr != nil {
			return mval{}, m.interpErr()
		}
		return m.eval(form, m.root)
	case "dotimes":
		for i := 0; i < 2; i++ {
			ne := &menv{vars: map[string]mval{args[0].List[0].Atom: {k: mInt, i: i}}, parent: env}
			if _, r := m.evalSeq(args[1:], ne); r != nil {
				return mval{}, r
			}
		}
		return mval{}, nil
	case "mm":
		v, r := m.eval(args[0], env)
		if r != nil {
			return v, r
		}
		return mval{k: mList, l: []mval{{k: mInt, i: 1}, v}}, nil
	}
	return mval{}, m.interpErr()
}

// quoteVal is the value of (quote n): the datum itself.
func quoteVal(n *Node) mval {
	if !n.IsL {
		if i, err := strconv.Atoi(n.Atom); err == nil {
			return mval{k: mInt, i: i}
		}
		if strings.HasPrefix(n.Atom, "\"") {
			s, _ := strconv.Unquote(n.Atom)
			return mval{k: mStr, s: s}
		}
		return mval{k: mSym, s: n.Atom}
	}
	if len(n.List) == 0 {
		return mval{}
	}
	if n.Head() == "quote" && len(n.List) == 2 {
		return quoteVal(n.List[1])
	}
	out := mval{k: mList}
	for _, c := range n.List {
		out.l = append(out.l, quoteVal(c))
	}
	return out
}

func (m *cmodel) callFun(f *mfun, args []mval) (mval, *mraise) {
	if f == nil {
		return mval{}, m.interpErr()
	}
	if f.native == "sim:hf1" || f.native == "sim:hf2" {
		if len(args) < 1 {
			return mval{}, m.interpErr()
		}
		m.stats["reach_host_builtin_as_handler"]++
		if x, fired := m.fpDecide(map[string]int{"sim:hf1": 91, "sim:hf2": 92}[f.native]); fired {
			return mval{}, x
		}
		return mval{k: mInt, i: len(args) - 1}, nil
	}
	if f.native == "hh" {
		if len(args) < 1 {
			return mval{}, m.interpErr()
		}
		rest := mval{k: mList, l: args[1:]}
		return mval{k: mList, l: []mval{{k: mSym, s: "hh"}, args[0], rest}}, nil
	}
	if len(args) < len(f.params) || (f.rest == "" && len(args) > len(f.params)) {
		m.stats["reach_arity_mismatched_handler"]++
		return mval{}, m.interpErr()
	}
	ne := &menv{vars: map[string]mval{}, parent: f.env}
	for i, p := range f.params {
		ne.vars[p] = args[i]
	}
	if f.rest != "" {
		ne.vars[f.rest] = mval{k: mList, l: args[len(f.params):]}
	}
	if len(f.body) == 0 {
		return mval{}, nil
	}
	return m.evalSeq(f.body, ne)
}

// ParseNode parses one s-expression of the restricted grammar's surface
// syntax (atoms, strings, parentheses) back into a Node.
func ParseNode(src string) (*Node, error) {
	p := &nodeParser{s: src}
	n, err := p.parse()
	if err != nil {
		return nil, err
	}
	p.skip()
	if p.i != len(p.s) {
		return nil, fmt.Errorf("trailing text")
	}
	return n, nil
}

type nodeParser struct {
	s string
	i int
}

func (p *nodeParser) skip() {
	for p.i < len(p.s) && (p.s[p.i] == ' ' || p.s[p.i] == '\n' || p.s[p.i] == '\t') {
		p.i++
	}
}

func (p *nodeParser) parse() (*Node, error) {
	p.skip()
	if p.i >= len(p.s) {
		return nil, fmt.Errorf("eof")
	}
	switch c := p.s[p.i]; {
	case c == '(':
		p.i++
		n := &Node{IsL: true}
		for {
			p.skip()
			if p.i >= len(p.s) {
				return nil, fmt.Errorf("eof in list")
			}
			if p.s[p.i] == ')' {
				p.i++
				return n, nil
			}
			ch, err := p.parse()
			if err != nil {
				return nil, err
			}
			n.List = append(n.List, ch)
		}
	case c == ')':
		return nil, fmt.Errorf("unexpected )")
	case c == '"':
		j := p.i + 1
		for j < len(p.s) && p.s[j] != '"' {
			if p.s[j] == '\\' {
				j++
			}
			j++
		}
		if j >= len(p.s) {
			return nil, fmt.Errorf("eof in string")
		}
		a := p.s[p.i : j+1]
		p.i = j + 1
		return A(a), nil
	default:
		j := p.i
		for j < len(p.s) && !strings.ContainsRune(" \n\t()", rune(p.s[j])) {
			j++
		}
		a := p.s[p.i:j]
		p.i = j
		return A(a), nil
	}
}

// -------------------------------------------------------------------- run

func stripQuotes(s string) string { return strings.ReplaceAll(s, "'", "") }

func renderCells(v *lisp.LVal) string {
	parts := make([]string, len(v.Cells))
	for i, c := range v.Cells {
		parts[i] = stripQuotes(render(c))
	}
	return strings.Join(parts, " ")
}

func renderMData(d []mval) string {
	parts := make([]string, len(d))
	for i, c := range d {
		parts[i] = c.render()
	}
	return strings.Join(parts, " ")
}

// condValid checks that a (possibly shrunk) form is still inside the
// restricted grammar the model defines.
func condValid(n *Node) bool {
	if isScramble(n) {
		return true
	}
	if !n.IsL {
		return n.Atom != "" && !strings.HasPrefix(n.Atom, "\"")
	}
	if len(n.List) == 0 {
		return false
	}
	head := n.Head()
	args := n.List[1:]
	all := func(xs []*Node) bool {
		for _, x := range xs {
			if !condValid(x) {
				return false
			}
		}
		return true
	}
	isQuoted := func(x *Node) bool {
		return x.IsL && len(x.List) == 2 && x.Head() == "quote" && !x.List[1].IsL
	}
	if head == "quote" {
		return len(args) == 1
	}
	switch head {
	case "sim:fp", "sim:fpo":
		if len(args) != 2 || args[0].IsL {
			return false
		}
		_, err := strconv.Atoi(args[0].Atom)
		return err == nil && condValid(args[1])
	case "sim:probe":
		return len(args) == 2 && isQuoted(args[0]) && condValid(args[1])
	case "sim:snap", "rethrow":
		return len(args) == 0
	case "car":
		return len(args) == 1 && args[0].IsL && args[0].Head() == "quote" && len(args[0].List) == 2
	case "progn", "ignore-errors":
		return len(args) >= 1 && all(args)
	case "list":
		return all(args)
	case "let":
		if len(args) < 2 || !args[0].IsL {
			return false
		}
		for _, b := range args[0].List {
			if !b.IsL || len(b.List) != 2 || b.List[0].IsL || !condValid(b.List[1]) {
				return false
			}
		}
		return all(args[1:])
	case "if":
		return len(args) == 3 && all(args)
	case "error":
		return len(args) >= 1 && isQuoted(args[0]) && all(args[1:])
	case "handler-bind":
		if len(args) < 2 || !args[0].IsL {
			return false
		}
		for _, b := range args[0].List {
			if !b.IsL || len(b.List) != 2 || b.List[0].IsL {
				return false
			}
			h := b.List[1]
			if h.IsL && h.Head() == "lambda" {
				if !lambdaValid(h) {
					return false
				}
			} else if !condValid(h) {
				return false
			}
		}
		return all(args[1:])
	case "funcall":
		return len(args) == 1 && args[0].IsL && args[0].Head() == "lambda" && lambdaValid(args[0]) && len(args[0].List[1].List) == 0
	case "load-string":
		if len(args) != 1 || args[0].IsL {
			return false
		}
		src, err := strconv.Unquote(args[0].Atom)
		if err != nil {
			return false
		}
		f, err := ParseNode(src)
		return err == nil && condValid(f)
	case "dotimes":
		return len(args) == 2 && args[0].IsL && len(args[0].List) == 2 && !args[0].List[0].IsL && args[0].List[1].Atom == "2" && condValid(args[1])
	case "mm":
		return len(args) == 1 && condValid(args[0])
	}
	return false
}

func lambdaValid(h *Node) bool {
	if len(h.List) < 3 || !h.List[1].IsL {
		return false
	}
	ps := h.List[1].List
	for i, p := range ps {
		if p.IsL {
			return false
		}
		if p.Atom == "&rest" && i != len(ps)-2 {
			return false
		}
	}
	for _, b := range h.List[2:] {
		if !condValid(b) {
			return false
		}
	}
	return true
}

var rethrowPristine string

func (condEngine) Run(ci any, st *Stats) *Violation {
	c := ci.(*CondCase)
	for _, f := range c.Forms {
		if !condValid(f) {
			st.Inc("discard_outside_grammar")
			return nil // outside the model's grammar (a shrink candidate): not a case
		}
	}
	k := c.Knobs
	k.MaxSteps = 200000
	w, err := NewWorld(k)
	if err != nil {
		return Violf("harness", "%v", err)
	}
	if o := w.LoadString(condPrelude); o.IsErr {
		return Violf("harness", "prelude: %s", o.Result())
	}
	w.Faults = c.Faults
	out := w.Load(c.Forms)
	st.Runs++
	st.SimSteps += out.Steps

	m := &cmodel{faults: c.Faults, fpHits: map[int]int{}, root: &menv{vars: map[string]mval{}}, stats: map[string]int{}}
	mv, mr := m.evalSeq(c.Forms, m.root)
	for k, v := range m.stats {
		st.Add(k, int64(v))
	}
	for _, f := range w.Fired {
		st.Inc("fault_fp_" + f + "_fired")
	}
	if mr != nil && mr.fromPanic {
		st.Inc("reach_panic_reached_host")
	}

	h := NewHash()
	for _, t := range m.trace {
		h = h.Str(t)
	}
	if mr != nil {
		h = h.Str("raise " + mr.cond + renderMData(mr.data))
	} else {
		h = h.Str(mv.render())
	}
	h = h.Int(int64(len(m.snaps)))
	st.NoteHash(h, len(w.Fired) > 0 || mr != nil || m.raiseN > 0)

	if out.GoPanic != "" {
		return Violf("go-panic-escaped", "%s", out.GoPanic)
	}
	// rethrow is an error anywhere but inside a handler: after the evaluation
	// returned no handler is running, whatever happened during it
	if cnd := w.RT.CurrentCondition(); cnd != nil {
		return Violf("rethrow-outside-handler", "after the evaluation returned a condition is still offered to rethrow: %s", cnd.Str)
	}
	w.Faults = nil
	const rethrowProbe = "(handler-bind ((condition (lambda (c &rest d) (list 'handled c d)))) (rethrow))"
	if rethrowPristine == "" {
		pw, err := NewWorld(Knobs{})
		if err != nil {
			return Violf("harness", "%v", err)
		}
		rethrowPristine = pw.LoadString(rethrowProbe).Result()
	}
	if o := w.LoadString(rethrowProbe); o.Result() != rethrowPristine {
		return Violf("rethrow-outside-handler", "(rethrow) evaluated outside any handler after the case gave %s; in a pristine runtime it gives %s", o.Result(), rethrowPristine)
	}
	for _, f := range w.Fired {
		if f == "baddata" {
			st.Inc("reach_malformed_host_error_outside_model")
			return nil
		}
	}
	// probe trace
	var realTrace []string
	for _, ev := range w.Events {
		if ev.Tag == "fault" {
			continue
		}
		realTrace = append(realTrace, ev.Tag+" "+stripQuotes(ev.Args))
	}
	for i := 0; i < len(realTrace) || i < len(m.trace); i++ {
		var a, b string
		if i < len(realTrace) {
			a = realTrace[i]
		}
		if i < len(m.trace) {
			b = m.trace[i]
		}
		if !wildEq(a, b) {
			oracle := "forms-evaluated-differ"
			return Violf(oracle, "probe event %d: interpreter [%s], reference model [%s]", i, a, b)
		}
	}
	// outcome
	if mr == nil {
		if out.IsErr {
			return Violf("outcome-differs", "interpreter returned %q, reference model the value %s", out.Result(), mv.render())
		}
		if got := stripQuotes(out.Value); !wildEq(got, mv.render()) {
			return Violf("outcome-differs", "interpreter returned %s, reference model %s", got, mv.render())
		}
	} else {
		if !out.IsErr {
			return Violf("outcome-differs", "interpreter returned the value %s, reference model raises %s %s (host panic: %v)", out.Value, mr.cond, renderMData(mr.data), mr.fromPanic)
		}
		if out.Cond != mr.cond || out.IsPanic != mr.fromPanic {
			return Violf("outcome-differs", "interpreter raised %s (host panic: %v), reference model raises %s (host panic: %v)", out.Cond, out.IsPanic, mr.cond, mr.fromPanic)
		}
		{
			if got, want := renderCells(out.Val), renderMData(mr.data); !wildEq(got, want) {
				return Violf("error-data-differs", "condition %s: interpreter data [%s], reference model [%s]", mr.cond, got, want)
			}
		}
	}
	// what the handlers saw
	if len(w.Snaps) != len(m.snaps) {
		return Violf("forms-evaluated-differ", "%d snapshots taken, reference model %d", len(w.Snaps), len(m.snaps))
	}
	for i, s := range w.Snaps {
		ms := m.snaps[i]
		if (ms == nil) != (s.Ptr == nil) {
			return Violf("current-condition-differs", "snapshot %d: a condition being handled: interpreter %v, model %v", i, s.Ptr != nil, ms != nil)
		}
		if ms != nil {
			if s.Cond != ms.cond {
				return Violf("current-condition-differs", "snapshot %d: handling %s, model %s", i, s.Cond, ms.cond)
			}
			if !wildEq(stripQuotes(s.Cells), renderMData(ms.data)) {
				return Violf("current-condition-differs", "snapshot %d: data [%s], model [%s]", i, stripQuotes(s.Cells), renderMData(ms.data))
			}
		}
	}
	// rethrow identity: the very error that was being handled reaches the host
	if mr != nil {
		for i, ms := range m.snaps {
			if ms != nil && ms.id == mr.id {
				st.Inc("reach_rethrown_error_reached_host")
				s := w.Snaps[i]
				if s.Ptr != out.Val {
					return Violf("rethrow-not-identical", "the error reaching the host is not the object the handler was handling (snapshot %d)", i)
				}
				if out.Val.Str != s.Cond || renderCellsRaw(out.Val) != s.Cells || stackNames(out.Val) != s.Frames {
					return Violf("rethrow-not-identical", "rethrown error changed: condition %s/%s data [%s]/[%s] stack [%s]/[%s]",
						out.Val.Str, s.Cond, renderCellsRaw(out.Val), s.Cells, stackNames(out.Val), s.Frames)
				}
				break
			}
		}
	}
	return nil
}

func renderCellsRaw(v *lisp.LVal) string {
	parts := make([]string, len(v.Cells))
	for i, c := range v.Cells {
		parts[i] = render(c)
	}
	return strings.Join(parts, " ")
}

func (condEngine) Shrink(ci any) []any {
	c := ci.(*CondCase)
	var out []any
	for i := range c.Faults {
		d := *c
		d.Faults = append(append([]FaultSpec(nil), c.Faults[:i]...), c.Faults[i+1:]...)
		out = append(out, &d)
	}
	if c.Knobs != (Knobs{}) {
		d := *c
		d.Knobs = Knobs{}
		out = append(out, &d)
	}
	for _, f := range ShrinkForms(c.Forms, 600) {
		d := *c
		d.Forms = f
		out = append(out, &d)
	}
	return out
}
