package sim

import (
	"encoding/json"
	"fmt"
	"io"
	"os"
	"runtime"
	"sort"
	"strings"
	"sync"

	"github.com/luthersystems/elps/lisp"
	"github.com/luthersystems/elps/parser"
)

// Engine E5 `interleave` — property C09: parsed programs are immutable and
// runtimes isolated under any interleaving.
//
// One source text is parsed once.  2-4 runtimes, each on its own goroutine,
// load that one parse under a seeded scheduler that releases exactly one
// goroutine at a time (the baton).  The baton is invisible to the race
// detector: it is a plain int32 touched only in //go:norace functions, so the
// execution is serialised (and replayable) yet ThreadSanitizer still treats
// the runtimes as unsynchronised goroutines.

type IlvCase struct {
	Forms    []*Node `json:"forms"`
	Loads    []int   `json:"loads"` // loads per runtime; len = number of runtimes
	Knobs    []Knobs `json:"knobs"`
	Program  []bool  `json:"as_program"` // runtime loads through lisp.Program instead of the caching Reader
	Schedule []int   `json:"schedule"`   // runtime index per scheduling event, cycled
	Burst    int     `json:"burst"`      // steps a picked runtime runs before yielding (>=1)
	Perturb  int     `json:"perturb"`    // every n-th event an unrelated program runs in a scratch runtime (0 = never)
	GenSyms  int     `json:"gensyms"`    // concurrent GenSym/GenEnvID callers on one runtime (0 = none)
	// PreTwin: the solo twins also run BEFORE the interleaved run (used when
	// runtimes are configured differently by their hosts: what one runtime's
	// host configured must not reach a runtime constructed later, and a twin
	// that runs afterwards would inherit the same leak)
	PreTwin bool `json:"pre_twin,omitempty"`
	// Reader: "" = the standard reader; "preserving" = the shared parse is
	// made by the format-preserving reader the tooling uses (every runtime
	// then loads it as a lisp.Program, which seals what it reads whatever
	// reader produced it)
	Reader string `json:"reader,omitempty"`
}

type ilvEngine struct{}

func init() { Register(ilvEngine{}) }

func (ilvEngine) Name() string     { return "interleave" }
func (ilvEngine) Property() string { return "C09" }
func (ilvEngine) NumCases(tier string) int {
	fl := os.Getenv("VERIF_FLAVOUR")
	quick, thorough := 3000, 150000
	switch fl {
	case "race":
		quick, thorough = 1000, 40000
	case "elpscheck":
		quick, thorough = 320, 2400
	}
	if tier == "thorough" {
		return thorough
	}
	return quick
}
func (ilvEngine) Decode(raw []byte) (any, error) {
	c := &IlvCase{}
	return c, json.Unmarshal(raw, c)
}

// ------------------------------------------------------------- the baton

type baton struct {
	turn int32
	done [8]int32
}

//go:norace
func (b *baton) give(to int32) { b.turn = to }

//go:norace
func (b *baton) wait(me int32) {
	for b.turn != me {
		runtime.Gosched()
	}
}

//go:norace
func (b *baton) finish(i int) { b.done[i] = 1 }

//go:norace
func (b *baton) finished(i int) bool { return b.done[i] == 1 }

// ------------------------------------------------------ shared-parse reader

// sharedReader hands the one shared parse to every runtime that asks for the
// shared source text, and parses anything else (nested load-string) privately.
// It has no mutable state.
type sharedReader struct {
	src   string
	exprs []*lisp.LVal
	inner lisp.Reader
}

func (r *sharedReader) Read(name string, rd io.Reader) ([]*lisp.LVal, error) {
	b, err := io.ReadAll(rd)
	if err != nil {
		return nil, err
	}
	if string(b) == r.src {
		return r.exprs, nil
	}
	return r.inner.Read(name, strings.NewReader(string(b)))
}

// --------------------------------------------------------------- generator

type ilvGen struct {
	r          *Rand
	litN       int
	prN        int
	defs       []*Node
	lits       []string // names of literal-returning functions
	kind       map[string]string
	needConst  bool
	needStdlib bool
	hasMty     bool
	hasMk      bool
	cfgReads   bool
	keepN      int
	kept       []string
}

func (g *ilvGen) intLits(n int) []*Node {
	xs := make([]*Node, n)
	for i := range xs {
		xs[i] = I(g.r.Range(0, 9))
	}
	return xs
}

// newLit defines (defun litK () '<literal>) and returns K's name.
func (g *ilvGen) newLit() string {
	g.litN++
	name := fmt.Sprintf("lit%d", g.litN)
	var lit *Node
	kind := "list"
	ints := func(n int) string {
		parts := make([]string, n)
		for i := range parts {
			parts[i] = fmt.Sprint(g.r.Range(0, 9))
		}
		return strings.Join(parts, " ")
	}
	switch g.r.Pick([]int{6, 3, 2, 2, 1, 4, 3, 2, 2, 3}) {
	case 9:
		// a quoted literal that a macro builds out of its arguments: the call
		// site is program text, the literal exists only in the expansion
		kind = "macro-built"
		if !g.hasMk {
			g.hasMk = true
			g.defs = append([]*Node{
				A("(defmacro mklit (&rest xs) (quasiquote (quote ((unquote-splicing xs)))))"),
				A("(defmacro mkvec (&rest xs) (quasiquote (quote (unquote (apply vector xs)))))"),
				A("(defmacro mkpair (a &rest xs) (quasiquote (quote ((unquote a) (unquote xs)))))")}, g.defs...)
		}
		lit = A("(" + PickStr(g.r, []string{"mklit", "mklit", "mkvec", "mkpair"}) + " " + ints(g.r.Range(2, 6)) + ")")
	case 0:
		lit = Q(L(g.intLits(g.r.Range(2, 6))...))
	case 1:
		kind = "nested"
		lit = Q(L(L(g.intLits(g.r.Range(2, 4))...), L(g.intLits(g.r.Range(2, 4))...)))
	case 2:
		kind = "vector"
		lit = Call("vector", g.intLits(g.r.Range(2, 5))...) // fresh each call: a control
	case 3:
		kind = "strs"
		lit = Q(L(Str("b"), Str("a"), Str("c")))
	case 4:
		kind = "syms"
		lit = Q(L(A("kb"), A("ka"), A("kc")))
	case 5:
		// reader-level quote
		lit = A("'(" + ints(g.r.Range(2, 6)) + ")")
	case 6:
		// quote of quote: the operand reaches the value domain through eval
		kind = "qq"
		lit = Call("eval", A("''("+ints(g.r.Range(2, 6))+")"))
	case 7:
		kind = "bracket"
		lit = Call("eval", A("'["+ints(g.r.Range(2, 5))+"]"))
	default:
		// a macro that returns its (quoted) argument
		kind = "macro-const"
		g.needConst = true
		lit = Call("constant", A("''("+ints(g.r.Range(2, 6))+")"))
	}
	g.defs = append(g.defs, L(A("defun"), A(name), L(), lit))
	g.lits = append(g.lits, name)
	g.kind[name] = kind
	return name
}

func (g *ilvGen) litCall() *Node {
	if len(g.lits) == 0 || g.r.Chance(1, 5) {
		return Call(g.newLit())
	}
	return Call(PickStr(g.r, g.lits))
}

// view returns an expression denoting the literal or a view of it.
func (g *ilvGen) view(d int) *Node {
	l := g.litCall()
	if d <= 0 {
		return l
	}
	switch g.r.Pick([]int{5, 2, 2, 2, 2, 1, 1, 1}) {
	case 0:
		return l
	case 1:
		return Call("cdr", g.view(d-1))
	case 2:
		return Call("rest", g.view(d-1))
	case 3:
		return Call("slice", QS("list"), g.view(d-1), I(g.r.Range(0, 1)), I(g.r.Range(1, 3)))
	case 4:
		return Call("slice", QS("vector"), g.view(d-1), I(g.r.Range(0, 1)), I(g.r.Range(1, 3)))
	case 5:
		return Call("car", g.view(d-1))
	case 6:
		return Call("identity", g.view(d-1))
	default:
		return Call("reverse", QS("list"), g.view(d-1))
	}
}

func (g *ilvGen) less() *Node {
	switch g.r.Intn(4) {
	case 0:
		return A("<")
	case 1:
		return A(">")
	case 2:
		return L(A("lambda"), L(A("a"), A("b")), Call("<", A("a"), A("b")))
	default:
		return A("string<")
	}
}

// mutate applies an in-place or capacity-sensitive builtin to a view.
func (g *ilvGen) mutate() *Node {
	v := g.view(g.r.Range(0, 2))
	switch g.r.Pick([]int{8, 3, 4, 3, 3, 2, 2, 2, 2, 2, 2, 1, 3, 4, 2, 4, 2, 4, 4, 3, 4, 2, 4}) {
	case 22:
		// filters that keep everything (or drop everything), map with the
		// identity, then in-place work on the result
		ty := QS(PickStr(g.r, []string{"list", "list", "vector"}))
		f := PickNode(g.r,
			Call("select", ty, L(A("lambda"), L(A("x")), A("true")), v),
			Call("reject", ty, L(A("lambda"), L(A("x")), A("false")), v),
			Call("select", ty, L(A("lambda"), L(A("x")), Call(">=", A("x"), I(0))), v),
			Call("map", ty, A("identity"), v),
			Call("reject", ty, L(A("lambda"), L(A("x")), A("true")), v))
		return PickNode(g.r, Call("stable-sort", g.less(), f), Call("append!", f, I(7)), Call("stable-sort", A(">"), f))
	case 20:
		// insertion at the very end of a sequence (where a spare slot of the
		// source's storage would be), then in-place work on the result
		ty := QS(PickStr(g.r, []string{"list", "list", "vector"}))
		ins := PickNode(g.r,
			Call("insert-sorted", ty, v, A("<"), I(g.r.Range(90, 99))),
			Call("insert-index", ty, v, Call("length", v), I(g.r.Range(90, 99))),
			Call("insert-sorted", ty, v, L(A("lambda"), L(A("a"), A("b")), Call("<", A("a"), A("b"))), A("ctr")))
		return PickNode(g.r, Call("stable-sort", A(">"), ins), Call("list", ins, ins), Call("append!", ins, I(7)))
	case 21:
		// reads whose result depends on how THIS runtime's json package is configured
		g.needStdlib = true
		g.cfgReads = true
		return PickNode(g.r,
			A(`(map 'list type (json:load-string "[1, 2.5, 9007199254740993]"))`),
			A(`(json:dump-string (json:load-string "{\"id\":9007199254740993}"))`),
			A(`(json:load-string "[9007199254740993, 12345678901234567890, 1]")`),
			A(`(list (json:dump-string 1.5) (json:dump-string (to-float 3)) (json:load-string "3"))`))
	case 17:
		// quasiquote templates that splice a literal (alone, at the tail, in the middle)
		tpl := PickNode(g.r,
			L(Call("unquote-splicing", v)),
			L(I(7), Call("unquote-splicing", v)),
			L(Call("unquote-splicing", v), I(7)),
			L(I(1), L(Call("unquote-splicing", v)), I(2)))
		return Call("stable-sort", g.less(), Call("quasiquote", tpl))
	case 18:
		// copy idioms, including of empty sequences, then mutation of the copy
		src := PickNode(g.r, v, A("'()"), Call("list"), Call("vector"), Call("cdr", Call("list", I(1))))
		cp := Call("concat", QS(PickStr(g.r, []string{"vector", "list"})), src)
		return PickNode(g.r, Call("append!", cp, A("ctr")), Call("stable-sort", g.less(), cp), Call("append!", Call("concat", QS("vector")), A("ctr"), I(1)))
	case 19:
		// library calls that may keep process-wide tables (only meaningful with the stdlib loaded)
		g.needStdlib = true
		pat := PickStr(g.r, []string{"a+", "[0-9]+", "^x", "b|c", "a+b", "(ab)*", "k[a-c]", "z$"})
		if g.r.Chance(1, 3) {
			// a library result that is KEPT across later library calls (here and in other runtimes)
			g.keepN++
			name := fmt.Sprintf("kept%d", g.keepN)
			g.kept = append(g.kept, name)
			return Call("progn", Call("set", QS(name), PickNode(g.r,
				Call("json:dump-bytes", Call("sorted-map", Str("k"), v, Str("c"), A("ctr"))),
				Call("json:dump-string", Call("sorted-map", Str("k"), v, Str("c"), A("ctr"))),
				Call("string:join", Call("map", QS("list"), A("to-string"), v), Str("-")),
				Call("base64:encode", Call("to-bytes", Str("abc"))))), A(name))
		}
		if g.r.Chance(1, 4) {
			// a value made by a library ends up inside a macro expansion (the
			// expansion is stamped with the call site by the runtime expanding it)
			g.keepN++
			obj := PickStr(g.r, []string{"(s:positive)", "(s:gt 3)", "s:int", "(list 'quote (s:in \"a\"))", "(list 'list (s:len 2) s:string)",
				"(list 'quote (list (s:negative) s:any))", "(s:not (s:lt 1))", "(list 'quote (time:parse-duration \"1s\"))"})
			return A(fmt.Sprintf("(progn (defmacro mlib%d () %s) (mlib%d) (type (mlib%d)))", g.keepN, obj, g.keepN, g.keepN))
		}
		if g.r.Chance(1, 3) {
			// refusals raised by the libraries themselves (the error value
			// is stamped with position and stack by the runtime that raises it)
			bad := PickStr(g.r, []string{
				"(progn (s:deftype \"zq1\" s:int (s:gt 3)) (s:validate zq1 1))", "(progn (s:deftype \"zq2\" s:int (s:lt 3)) (s:validate zq2 5))",
				"(progn (s:deftype \"zq3\" s:int (s:gte 3)) (s:validate zq3 1))", "(progn (s:deftype \"zq4\" s:int (s:lte 3)) (s:validate zq4 5))",
				"(progn (s:deftype \"zq5\" s:int (s:positive)) (s:validate zq5 -1))", "(progn (s:deftype \"zq6\" s:int (s:negative)) (s:validate zq6 1))",
				"(progn (s:deftype \"zq7\" s:string (s:in \"a\" \"b\")) (s:validate zq7 \"c\"))", "(progn (s:deftype \"zq8\" s:string (s:len 2)) (s:validate zq8 \"abc\"))",
				"((s:gt 3) 1)", "((s:lt 3) 1)", "((s:in \"a\") \"b\")", "(s:validate s:int \"x\")",
				"(json:load-string \"{bad\")", "(regexp:regexp-match? \"(\" \"x\")",
				"(base64:decode \"!!\")", "(time:parse-rfc3339 \"x\")", "(time:parse-duration \"x\")", "(to-int \"x\")", "(string:repeat \"a\" -1)", "(math:sqrt \"x\")"})
			return A(fmt.Sprintf("(handler-bind ((condition (lambda (c &rest zd) (list c zd)))) %s)", bad))
		}
		return PickNode(g.r,
			Call("regexp:regexp-match?", Str(pat), Str("xaab12kc")),
			Call("json:dump-string", Call("sorted-map", Str("k"), v)),
			Call("string:join", Call("map", QS("list"), A("to-string"), v), Str(",")),
			Call("json:load-string", Str("[3,1,2]")))
	case 13:
		// the literal's elements become a callee's &rest list
		body := PickNode(g.r, Call("stable-sort", A("<"), A("xs")), Call("append!", A("xs"), I(30)), Call("stable-sort", A("<"), Call("cdr", A("xs"))))
		return Call(PickStr(g.r, []string{"apply", "unpack"}), L(A("lambda"), L(A("&rest"), A("xs")), body), v)
	case 14:
		return Call("apply", L(A("lambda"), L(A("a"), A("&rest"), A("xs")), Call("stable-sort", A("<"), A("xs"))), I(0), v)
	case 15:
		// threading macros build a call form from a form of the program; the
		// threaded value differs between runtimes and loads (ctr)
		n := g.r.Range(0, 5)
		call := []*Node{A("+")}
		for i := 0; i < n; i++ {
			call = append(call, I(g.r.Range(1, 9)))
		}
		return Call(PickStr(g.r, []string{"thread-last", "thread-first"}), A("ctr"), L(call...), L(A("*"), I(2)))
	case 16:
		return Call(PickStr(g.r, []string{"thread-last", "thread-first"}), v, L(A("map"), QS("list"), L(A("lambda"), L(A("x")), Call("+", A("x"), A("ctr")))))
	case 12:
		// zero-value appends return a value that may still share the input's storage
		return Call("stable-sort", g.less(), Call("append", QS(PickStr(g.r, []string{"vector", "list"})), v))
	case 0:
		return Call("stable-sort", g.less(), v)
	case 1:
		return Call("stable-sort", A("<"), v, L(A("lambda"), L(A("x")), Call("-", I(0), A("x"))))
	case 2:
		return Call("append!", v, I(g.r.Range(10, 19)))
	case 3:
		return Call("append", QS("vector"), v, I(g.r.Range(10, 19)))
	case 4:
		return Call("append", QS("list"), v, I(g.r.Range(10, 19)))
	case 5:
		return Call("append!", Call("append", QS("vector"), v, I(20)), I(21))
	case 6:
		return Call("assoc!", Call("sorted-map", QS("k"), v), QS("k2"), v)
	case 7:
		return Call("map", QS("list"), L(A("lambda"), L(A("x")), Call("+", A("x"), I(1))), v)
	case 8:
		return Call("insert-index", QS("list"), v, I(0), I(99))
	case 9:
		return Call("stable-sort", A("<"), Call("append", QS("list"), v, I(5)))
	case 10:
		return Call("concat", QS("list"), v, v)
	default:
		return Call("append-bytes!", Call("to-bytes", Str("ab")), Call("to-bytes", Str("c")))
	}
}

func (g *ilvGen) probe(tag string, e *Node) *Node {
	g.prN++
	return Call("sim:probe", QS(fmt.Sprintf("%s%d", tag, g.prN)), e)
}

// litProbe observes a literal: the tag carries the literal's name so the
// oracle can demand that every observation of it prints the same.
func (g *ilvGen) litProbe(name string) *Node {
	return Call("sim:probe", QS("lit:"+name), Call(name))
}

var nearMissForms = []string{
	"(let ((zx)) zx)", "(let* ((zx)) zx)", "(let (zx) zx)", "(let ((zx 1 2)) zx)", "(let* ((zx 1) (zy)) zy)", "(let ((zx 1) zy) zy)", "(let ())", "(let* () 1)",
	"(flet ((zf)) 1)", "(flet ((zf ())) (zf))", "(labels ((zf ())) (zf))", "(labels ((zf)) 1)", "(cond (true))", "(cond)", "(cond ((= 1 2) 1))", "(if true)", "(if true 1)",
	"(dotimes (zi) 1)", "(dotimes (zi 2 zi zi) 1)", "(dotimes ((zi 1)) 1)", "(lambda)", "(lambda zx)", "((lambda (&rest) 1))", "((lambda (&optional) 1))",
	"(handler-bind ((condition)) 1)", "(handler-bind (()) 1)", "(handler-bind () 1)", "(defun zg)", "(defmacro zm)", "(quote)", "(quote 1 2)", "(quasiquote)",
	"(assert)", "(progn)", "(or)", "(and)", "(thread-first 1 ())", "(thread-last 1 (list))", "(set 'zq)", "(function)", "(expr)", "(expr 1 2)", "(ignore-errors)",
	"(macrolet ((zm)) 1)", "(macrolet () 1)", "(in-package)", "(export)", "(use-package)", "(funcall)", "(apply +)", "(curry-function)", "(get-default (sorted-map))",
}

func (ilvEngine) Gen(r *Rand, tier string) any {
	g := &ilvGen{r: r, kind: map[string]string{}}
	c := &IlvCase{}
	var body []*Node
	// macros whose &rest / argument lists reach a mutator
	if r.Chance(2, 3) {
		g.defs = append(g.defs,
			L(A("defmacro"), A("msort"), L(A("&rest"), A("xs")),
				Call("quasiquote", Call("quote", Call("unquote", Call("stable-sort", A("<"), A("xs")))))),
			L(A("defmacro"), A("mapp"), L(A("x"), A("&rest"), A("xs")),
				Call("progn", Call("append!", A("xs"), A("x")), Call("quasiquote", Call("quote", Call("unquote", A("xs")))))),
			L(A("defmacro"), A("mtpl"), L(A("x")),
				Call("quasiquote", Call("list", I(3), Call("unquote", A("x")), I(1)))),
		)
	}
	n := r.Range(3, 9)
	for i := 0; i < n; i++ {
		switch r.Pick([]int{10, 3, 2, 2, 2, 2, 1, 1, 2, 2, 2}) {
		case 10:
			// operators that evaluate some of their operands only on one path
			// (a failing assert renders its message arguments)
			body = append(body, A("(sim:probe 'as (handler-bind ((condition (lambda (c &rest zd) (list c zd)))) "+PickStr(r, []string{
				"(assert (= ctr 0) \"ctr {} {}\" (+ ctr 1) (* 2 ctr))", "(assert (> ctr 0) \"ctr {}\" (+ ctr 1))", "(assert (= ctr 0))",
				"(assert (= ctr 0) \"plain\")", "(assert-equal ctr 0)", "(assert (string? ctr) \"{} {} {}\" ctr (list ctr ctr) (vector ctr))",
				"(cond ((= ctr 0) (+ ctr 1)) ((> ctr 0) (* 2 ctr)) (:else (- ctr)))", "(or (= ctr 0) (+ ctr 1) (* 2 ctr))", "(and (> ctr 0) (+ ctr 1) (* 2 ctr))",
				"(if (= ctr 0) (+ ctr 1) (* 2 ctr))", "(dotimes (zi ctr (* zi ctr)) (+ zi 1))",
			})+"))"))
		case 9:
			// values the interpreter hands out for type names and in
			// argument-type errors, also through a macro expansion (which is
			// evaluated and source-stamped by the runtime that expands it)
			arg := PickStr(r, []string{"1", "\"s\"", "'a", "(vector)", "(sorted-map)", "1.5", "(lambda () 1)", "()", "(to-bytes \"a\")", "'(1)", "(list 1)", "(type 1)"})
			switch r.Intn(4) {
			case 0:
				body = append(body, A(fmt.Sprintf("(sim:probe 'ty (type %s))", arg)))
			case 1:
				if !g.hasMty {
					g.hasMty = true
					g.defs = append(g.defs, A("(defmacro mty (x) (type x))"), A("(defmacro mtyq (x) (list 'quote (list (type x) (type x))))"))
				}
				body = append(body, A(fmt.Sprintf("(sim:probe 'tym (list (mty %s) (mtyq %s)))", arg, arg)))
			case 2:
				body = append(body, A(fmt.Sprintf("(sim:probe 'tye (handler-bind ((condition (lambda (c &rest zd) (list c zd)))) (+ 1 %s)))", arg)))
			default:
				body = append(body, A(fmt.Sprintf("(sim:probe 'tyl (let ((zt (type %s))) (list zt (symbol? zt) (equal? zt (type %s)))))", arg, arg)))
			}
		case 8:
			// abbreviated, incomplete or over-full special-form syntax: whatever
			// the operator makes of it (usually an error), it may not
			// complete or repair the parsed program in place
			bad := PickStr(r, nearMissForms)
			body = append(body, A(fmt.Sprintf("(sim:probe 'nm (handler-bind ((condition (lambda (c &rest zd) c))) %s))", bad)))
		case 0:
			body = append(body, g.probe("m", g.mutate()))
		case 1:
			if len(g.defs) > 0 && r.Bool() {
				body = append(body, g.probe("ms", L(append([]*Node{A("msort")}, g.intLits(r.Range(2, 5))...)...)))
			} else {
				body = append(body, g.probe("g", Call("gensym")))
			}
		case 2:
			// a function that mutates, called in a loop: the literal is re-evaluated each turn
			name := fmt.Sprintf("fm%d", i)
			g.defs = append(g.defs, L(A("defun"), A(name), L(), g.mutate()))
			body = append(body, L(A("dotimes"), L(A("i"), I(r.Range(2, 3))), g.probe("lp", Call(name))))
		case 3:
			body = append(body, g.probe("me", Call("macroexpand", Q(L(append([]*Node{A("msort")}, g.intLits(r.Range(2, 4))...)...)))))
		case 4:
			body = append(body, g.probe("mp", L(append([]*Node{A("mapp"), I(7)}, g.intLits(r.Range(1, 3))...)...)))
		case 5:
			body = append(body, g.probe("tp", Call("stable-sort", A("<"), Call("mtpl", I(r.Range(0, 9))))))
		case 6:
			// a global keeps a value obtained from a literal, later mutated through it
			gl := fmt.Sprintf("gk%d", i)
			body = append(body, Call("set", QS(gl), g.view(1)), g.probe("gs", Call("stable-sort", A("<"), A(gl))))
		default:
			body = append(body, g.probe("ls", Call("load-string", Str(g.probe("in", g.mutate()).String()))))
		}
		// observe literals often
		if len(g.lits) > 0 && r.Chance(2, 3) {
			body = append(body, g.litProbe(PickStr(r, g.lits)))
		}
	}
	for _, l := range g.lits {
		body = append(body, g.litProbe(l))
	}
	for _, k := range g.kept {
		// values kept from earlier library calls are looked at again at the very end
		body = append(body, Call("sim:probe", QS("kept"), Call("ignore-errors", A(k))))
	}
	// definitions for macros msort/mapp/mtpl may be absent: references then fail the same way everywhere
	pre := []*Node{Call("set", QS("ctr"), Call("+", I(1), Call("or", Call("ignore-errors", A("ctr")), I(0))))}
	if g.needConst {
		pre = append(pre, L(A("defmacro"), A("constant"), L(A("x")), A("x")))
	}
	c.Forms = append(append(pre, g.defs...), body...)

	nrt := r.Range(2, 4)
	for i := 0; i < nrt; i++ {
		c.Loads = append(c.Loads, r.Pick([]int{0, 5, 3, 1}))
		k := Knobs{UseSimCtx: true, MaxSteps: 200000}
		k.TRO = PickStr(r, []string{"", "", "debugger", "profiler"})
		if r.Chance(1, 5) {
			k.MaxAlloc = r.Range(3, 40)
		}
		if r.Chance(1, 6) {
			k.MaxPhys = r.Range(3, 12)
		}
		k.Stdlib = g.needStdlib
		if g.cfgReads && r.Chance(1, 2) {
			// this runtime's host configures its json package
			k.Prelude = PickStr(r, []string{"(json:use-exact-integers true)", "(json:use-exact-integers false)", "(json:use-string-numbers true)", "(json:use-string-numbers false)",
				"(json:use-exact-integers true) (json:use-string-numbers true)"})
			c.PreTwin = true
		}
		c.Knobs = append(c.Knobs, k)
		c.Program = append(c.Program, r.Chance(1, 3))
	}
	// schedule
	ns := r.Range(8, 60)
	switch r.Intn(3) {
	case 0: // uniform
		for i := 0; i < ns; i++ {
			c.Schedule = append(c.Schedule, r.Intn(nrt))
		}
		c.Burst = 1
	case 1: // bursty
		for i := 0; i < ns; i++ {
			c.Schedule = append(c.Schedule, r.Intn(nrt))
		}
		c.Burst = r.Range(2, 60)
	default: // round robin
		for i := 0; i < nrt; i++ {
			c.Schedule = append(c.Schedule, i)
		}
		c.Burst = r.Range(1, 4)
	}
	if r.Chance(1, 3) {
		c.Perturb = r.Range(3, 40)
	}
	if r.Chance(1, 4) {
		c.GenSyms = r.Range(2, 4)
	}
	if r.Chance(1, 6) {
		c.Reader = "preserving"
		for i := range c.Program {
			c.Program[i] = true
		}
	}
	return c
}

// -------------------------------------------------------------------- run

type ilvLoadResult struct {
	out Outcome
	evs []Event
}

func runSolo(k Knobs, src string, loads int, asProgram bool) ([]ilvLoadResult, error) {
	w, err := NewWorld(k)
	if err != nil {
		return nil, err
	}
	var res []ilvLoadResult
	for l := 0; l < loads; l++ {
		from := len(w.Events)
		w.Ctx = NewSimCtx(w)
		var out Outcome
		if asProgram {
			p, perr := lisp.ReadProgram(parser.NewReader(), "shared", strings.NewReader(src))
			if perr != nil {
				return nil, perr
			}
			out = w.Call(func() *lisp.LVal { return w.Env.LoadProgramContext(w.Ctx, p) })
		} else {
			out = w.Call(func() *lisp.LVal { return w.Env.LoadStringContext(w.Ctx, "shared", src) })
		}
		res = append(res, ilvLoadResult{out: out, evs: append([]Event(nil), w.Events[from:]...)})
	}
	return res, nil
}

var raceLogSize int64

// raceLogGrew reports whether the race detector wrote a new report since the
// last call (race flavour only: GORACE log_path is set by the driver).
func raceLogGrew() (bool, string) {
	prefix := os.Getenv("VERIF_RACE_LOG")
	if prefix == "" {
		return false, ""
	}
	p := fmt.Sprintf("%s.%d", prefix, os.Getpid())
	fi, err := os.Stat(p)
	if err != nil {
		return false, ""
	}
	if fi.Size() > raceLogSize {
		b, _ := os.ReadFile(p)
		txt := string(b[raceLogSize:])
		raceLogSize = fi.Size()
		return true, txt
	}
	return false, ""
}

func (ilvEngine) Run(ci any, st *Stats) *Violation {
	c := ci.(*IlvCase)
	n := len(c.Loads)
	if n < 1 || n > 6 || len(c.Knobs) != n || len(c.Program) != n || len(c.Schedule) == 0 {
		return nil
	}
	src := Src(c.Forms)
	mkReader := parser.NewReader
	if c.Reader == "preserving" {
		mkReader = func(...parser.ReaderOption) lisp.Reader { return parser.NewReader(parser.WithFormatPreserving()) }
		for i := range c.Program {
			if !c.Program[i] {
				return nil // only Programs promise to seal whatever their reader produced
			}
		}
		st.Inc("config_shared_parse_by_format_preserving_reader")
	}
	exprs, err := mkReader().Read("shared", strings.NewReader(src))
	if err != nil {
		return nil // a shrink candidate that no longer parses
	}
	snap := lisp.TakeSingletonSnapshot()
	prog, err := lisp.ReadProgram(&sharedReader{src: src, exprs: exprs, inner: parser.NewReader()}, "shared", strings.NewReader(src))
	if err != nil {
		return Violf("harness", "%v", err)
	}
	fp0 := lisp.SealedASTFingerprint(exprs)

	var preTwins [][]ilvLoadResult
	if c.PreTwin {
		for i := 0; i < n; i++ {
			tw, err := runSolo(c.Knobs[i], src, c.Loads[i], c.Program[i])
			if err != nil {
				return Violf("harness", "%v", err)
			}
			preTwins = append(preTwins, tw)
			st.Runs += int64(c.Loads[i])
		}
		st.Inc("cases_with_twins_before_and_after")
	}

	// the interleaved run
	worlds := make([]*World, n)
	results := make([][]ilvLoadResult, n)
	rd := &sharedReader{src: src, exprs: exprs, inner: parser.NewReader()}
	// Each runtime is CONSTRUCTED by its own goroutine (under the baton, like
	// everything else it does): construction reads and fills process-wide
	// tables too, and the first construction in a process is the interesting one.
	buildErrs := make([]error, n)
	b := &baton{}
	burst := c.Burst
	if burst < 1 {
		burst = 1
	}
	var wg sync.WaitGroup
	for i := 0; i < n; i++ {
		wg.Add(1)
		go func(i int) {
			defer wg.Done()
			me := int32(i + 1)
			b.wait(me)
			w, err := NewWorld(c.Knobs[i])
			if err != nil {
				buildErrs[i] = err
				b.finish(i)
				b.give(0)
				return
			}
			w.RT.Reader = rd
			worlds[i] = w
			b.give(0) // construction is one scheduling event
			b.wait(me)
			for l := 0; l < c.Loads[i]; l++ {
				from := len(w.Events)
				ctx := NewSimCtx(w)
				left := burst
				ctx.OnPoll = func(*SimCtx) {
					left--
					if left <= 0 {
						left = burst
						b.give(0)
						b.wait(me)
					}
				}
				w.Ctx = ctx
				var out Outcome
				if c.Program[i] {
					out = w.Call(func() *lisp.LVal { return w.Env.LoadProgramContext(ctx, prog) })
				} else {
					out = w.Call(func() *lisp.LVal { return w.Env.LoadStringContext(ctx, "shared", src) })
				}
				results[i] = append(results[i], ilvLoadResult{out: out, evs: append([]Event(nil), w.Events[from:]...)})
			}
			b.finish(i)
			b.give(0)
		}(i)
	}
	// scheduler (this goroutine)
	var scratch *World
	events, switches, forcedGCs := 0, 0, 0
	last := -1
	var fpViol *Violation
	schedHash := NewHash()
	for {
		alive := 0
		for i := 0; i < n; i++ {
			if !b.finished(i) {
				alive++
			}
		}
		if alive == 0 {
			break
		}
		pick := c.Schedule[events%len(c.Schedule)] % n
		for b.finished(pick) {
			pick = (pick + 1) % n
		}
		events++
		if pick != last {
			switches++
			last = pick
		}
		schedHash = schedHash.Int(int64(pick))
		if c.Perturb > 0 && events%c.Perturb == 0 {
			if scratch == nil {
				scratch, _ = NewWorld(Knobs{})
			}
			if scratch != nil {
				scratch.LoadString("(set 'zz (stable-sort < '(9 8 7))) (gensym) (defun pp (x) (+ x 1)) (map 'list pp '(1 2 3))")
				junk := make([][]byte, 0, 16)
				for j := 0; j < 16; j++ {
					junk = append(junk, make([]byte, 64+events%512))
				}
				_ = junk
				// a bounded number of forced collections per case: in the
				// checked (elpscheck) build the heap of a long-lived worker
				// process grows, and a case with thousands of scheduling
				// events would otherwise spend minutes collecting
				if events%(c.Perturb*4) == 0 && forcedGCs < 8 {
					forcedGCs++
					runtime.GC()
				}
				st.Inc("perturbations")
			}
		}
		b.give(int32(pick + 1))
		b.wait(0)
		if fp := lisp.SealedASTFingerprint(exprs); fp != fp0 && fpViol == nil {
			fpViol = Violf("shared-parse-mutated", "the shared program's fingerprint changed during scheduling event %d (runtime %d was running)", events, pick)
		}
	}
	wg.Wait()
	for _, err := range buildErrs {
		if err != nil {
			return Violf("harness", "%v", err)
		}
	}
	// concurrent GenSym / GenEnvID callers on one runtime: the only operations
	// documented as safe for concurrent use
	if c.GenSyms > 0 {
		w, err := NewWorld(Knobs{})
		if err != nil {
			return Violf("harness", "%v", err)
		}
		var wg2 sync.WaitGroup
		outs := make([][]string, c.GenSyms)
		for gi := 0; gi < c.GenSyms; gi++ {
			wg2.Add(1)
			go func(gi int) {
				defer wg2.Done()
				for j := 0; j < 200; j++ {
					outs[gi] = append(outs[gi], w.RT.GenSym(), fmt.Sprint("e", w.RT.GenEnvID()))
				}
			}(gi)
		}
		wg2.Wait()
		seen := map[string]bool{}
		for _, o := range outs {
			for _, s := range o {
				if seen[s] {
					return Violf("gensym-duplicate", "concurrent GenSym/GenEnvID callers on one runtime obtained %q twice", s)
				}
				seen[s] = true
			}
		}
		st.Inc("reach_concurrent_gensym_storm")
	}
	// solo twins: fresh parse per load, running alone.  They run AFTER the
	// interleaved run so that lazily filled process-wide tables are first
	// touched from inside the concurrent goroutines, not pre-warmed here.
	twins := make([][]ilvLoadResult, n)
	for i := 0; i < n; i++ {
		tw, err := runSolo(c.Knobs[i], src, c.Loads[i], c.Program[i])
		if err != nil {
			return Violf("harness", "%v", err)
		}
		twins[i] = tw
		st.Runs += int64(c.Loads[i])
	}

	st.Add("scheduling_events", int64(events))
	st.Add("context_switches", int64(switches))

	h := schedHash
	for i := 0; i < n; i++ {
		for _, r := range results[i] {
			h = evHash(h, r.evs, r.out)
			st.SimSteps += r.out.Steps
			st.Runs++
		}
	}
	st.NoteHash(h, switches > 1)

	if grew, txt := raceLogGrew(); grew {
		if strings.Contains(txt, "/lisp/") || strings.Contains(txt, "luthersystems/elps") || strings.Contains(txt, "/parser/") {
			return Violf("data-race", "the race detector reported a data race involving repository code:\n%s", trimRace(txt))
		}
		return Violf("harness", "race detector report without repository frames:\n%s", trimRace(txt))
	}
	if fpViol != nil {
		return fpViol
	}
	if fp := lisp.SealedASTFingerprint(exprs); fp != fp0 {
		return Violf("shared-parse-mutated", "the shared program's fingerprint differs after all loads")
	}
	if msg := snap.Verify(); msg != "" {
		return Violf("singleton-mutated", "%s", msg)
	}
	// result equivalence with the solo twins, and progress
	lits := map[string]string{}
	for i := 0; i < n; i++ {
		if len(results[i]) != len(twins[i]) {
			return Violf("harness", "runtime %d made %d loads, twin %d", i, len(results[i]), len(twins[i]))
		}
		for l := range results[i] {
			got, want := results[i][l], twins[i][l]
			if got.out.GoPanic != "" {
				return Violf("go-panic-escaped", "runtime %d load %d: %s", i, l, got.out.GoPanic)
			}
			if got.out.Result() != want.out.Result() || got.out.Stderr != want.out.Stderr {
				return Violf("result-differs-from-fresh-parse", "runtime %d load %d of the shared parse: %q; the same load of a fresh parse in a runtime running alone: %q", i, l, got.out.Result(), want.out.Result())
			}
			if d := cmpEvents(relEvents(got.evs), relEvents(want.evs)); d != "" {
				return Violf("result-differs-from-fresh-parse", "runtime %d load %d: %s", i, l, d)
			}
			if got.out.Steps != want.out.Steps {
				return Violf("progress-differs", "runtime %d load %d took %d steps interleaved, %d alone", i, l, got.out.Steps, want.out.Steps)
			}
			if preTwins != nil && l < len(preTwins[i]) {
				pre := preTwins[i][l]
				if got.out.Result() != pre.out.Result() || got.out.Stderr != pre.out.Stderr {
					return Violf("result-differs-from-fresh-parse", "runtime %d load %d of the shared parse: %q; the same load of a fresh parse in an identically configured runtime that ran alone BEFORE the other runtimes existed: %q", i, l, got.out.Result(), pre.out.Result())
				}
				if d := cmpEvents(relEvents(got.evs), relEvents(pre.evs)); d != "" {
					return Violf("result-differs-from-fresh-parse", "runtime %d load %d (twin that ran before the other runtimes existed): %s", i, l, d)
				}
			}
			for _, ev := range got.evs {
				if strings.HasPrefix(ev.Tag, "lit:") {
					if prev, ok := lits[ev.Tag]; ok && prev != ev.Args {
						return Violf("literal-changed", "literal %s evaluated to %s earlier and to %s now (runtime %d load %d)", ev.Tag[4:], prev, ev.Args, i, l)
					} else if !ok {
						lits[ev.Tag] = ev.Args
					}
				}
			}
		}
	}
	// the literal's first observation must equal its observation in a pristine runtime
	if len(lits) > 0 {
		keys := make([]string, 0, len(lits))
		for k := range lits {
			keys = append(keys, k)
		}
		sort.Strings(keys)
		pw, err := NewWorld(Knobs{})
		if err == nil {
			var defs []*Node
			for _, f := range c.Forms {
				if f.Head() == "defun" && len(f.List) > 1 && strings.HasPrefix(f.List[1].Atom, "lit") {
					defs = append(defs, f)
				}
				if f.Head() == "defmacro" && len(f.List) > 1 && f.List[1].Atom == "constant" {
					defs = append([]*Node{f}, defs...)
				}
			}
			pw.Load(defs)
			for _, k := range keys {
				name := k[4:]
				if strings.HasPrefix(name, "lit") {
					o := pw.LoadString("(" + name + ")")
					if !o.IsErr && o.Value != lits[k] {
						return Violf("literal-changed", "literal %s prints as %s in a pristine runtime but was observed as %s", name, o.Value, lits[k])
					}
				}
			}
			st.Add("literal_observations_checked", int64(len(keys)))
		}
	}
	return nil
}

func trimRace(s string) string {
	lines := strings.Split(s, "\n")
	var keep []string
	for _, l := range lines {
		t := strings.TrimSpace(l)
		if strings.HasPrefix(t, "WARNING: DATA RACE") || strings.HasPrefix(t, "Write at") || strings.HasPrefix(t, "Read at") ||
			strings.HasPrefix(t, "Previous") || strings.Contains(t, "/lisp/") || strings.Contains(t, "elps/lisp.") {
			keep = append(keep, t)
		}
		if len(keep) > 14 {
			break
		}
	}
	return strings.Join(keep, " | ")
}

func (ilvEngine) Shrink(ci any) []any {
	c := ci.(*IlvCase)
	if os.Getenv("VERIF_FLAVOUR") == "race" {
		return nil // the race detector reports each racy pair once per process: candidates cannot be re-judged in-process
	}
	var out []any
	cp := func() *IlvCase {
		d := *c
		d.Loads = append([]int(nil), c.Loads...)
		d.Knobs = append([]Knobs(nil), c.Knobs...)
		d.Program = append([]bool(nil), c.Program...)
		d.Schedule = append([]int(nil), c.Schedule...)
		return &d
	}
	for i := len(c.Loads) - 1; i >= 0 && len(c.Loads) > 1; i-- {
		d := cp()
		d.Loads = append(d.Loads[:i:i], d.Loads[i+1:]...)
		d.Knobs = append(d.Knobs[:i:i], d.Knobs[i+1:]...)
		d.Program = append(d.Program[:i:i], d.Program[i+1:]...)
		out = append(out, d)
	}
	for i, l := range c.Loads {
		if l > 1 {
			d := cp()
			d.Loads[i] = l - 1
			out = append(out, d)
		}
		if c.Knobs[i] != (Knobs{UseSimCtx: true, MaxSteps: 200000}) {
			d := cp()
			d.Knobs[i] = Knobs{UseSimCtx: true, MaxSteps: 200000}
			out = append(out, d)
		}
		if c.Program[i] {
			d := cp()
			d.Program[i] = false
			out = append(out, d)
		}
	}
	if c.Perturb != 0 {
		d := cp()
		d.Perturb = 0
		out = append(out, d)
	}
	if c.GenSyms != 0 {
		d := cp()
		d.GenSyms = 0
		out = append(out, d)
	}
	if len(c.Schedule) > 1 {
		d := cp()
		d.Schedule = []int{0}
		d.Burst = 1000000 // fewest context switches: each runtime runs to completion
		out = append(out, d)
		d2 := cp()
		d2.Schedule = d2.Schedule[:len(d2.Schedule)/2]
		out = append(out, d2)
	}
	if c.Burst > 1 && c.Burst < 1000000 {
		d := cp()
		d.Burst = c.Burst * 4
		out = append(out, d)
	}
	for _, f := range ShrinkForms(c.Forms, 400) {
		d := cp()
		d.Forms = f
		out = append(out, d)
	}
	return out
}
