package sim

import (
	"encoding/json"
	"fmt"
	"math/bits"
	"sort"
	"strings"

	"github.com/luthersystems/elps/lisp"
)

// Engine E7 `heap` — property C11: sharing, copying and mutation follow the
// documented discipline.  A history of container operations over ten global
// variables is executed in the real interpreter and in an executable heap
// model (headers over shared backing arrays, maps keyed by name); after every
// step every variable is re-inspected.  Fault dimension: a small per-operation
// allocation cap that makes individual operations refuse, and lisp callbacks
// (map, select, stable-sort comparator/key) that fail part-way.

const heapVars = 10

// HeapOp is one explicit step.  Elems are element expressions: an int, or
// "vN" for the current value of a variable.
type HeapOp struct {
	Kind   string   `json:"k"`
	Dst    int      `json:"d"`           // variable receiving the result
	A      int      `json:"a,omitempty"` // first operand variable
	B      int      `json:"b,omitempty"`
	Type   string   `json:"t,omitempty"` // 'list | 'vector
	I      int      `json:"i,omitempty"`
	J      int      `json:"j,omitempty"`
	Elems  []string `json:"e,omitempty"`
	Key    string   `json:"key,omitempty"` // map key as written: "k1" (string), 'k1 (symbol), :k1 (keyword)
	Desc   bool     `json:"desc,omitempty"`
	FailAt int      `json:"fail_at,omitempty"` // callback fails at its n-th invocation (0 = never)
}

type HeapCase struct {
	Knobs Knobs    `json:"knobs"`
	Ops   []HeapOp `json:"ops"`
}

type heapEngine struct{}

func init() { Register(heapEngine{}) }

func (heapEngine) Name() string     { return "heap" }
func (heapEngine) Property() string { return "C11" }
func (heapEngine) NumCases(tier string) int {
	if tier == "thorough" {
		return 1500000
	}
	return 16000
}
func (heapEngine) Decode(raw []byte) (any, error) {
	c := &HeapCase{}
	return c, json.Unmarshal(raw, c)
}

// ------------------------------------------------------------------ model

type hkind int

const (
	hNil hkind = iota
	hInt
	hSym
	hStr
	hBool
	hRef
)

type hval struct {
	k   hkind
	i   int
	s   string
	obj *hobj
}

type okind int

const (
	oList okind = iota
	oVec
	oMap
	oBytes
)

type hback struct{ cells []hval }

type hentry struct {
	sym bool
	val hval
}

type hobj struct {
	kind    okind
	back    *hback
	off, n  int
	clamped bool // produced as a view and not grown since: an append to it always reallocates
	m       map[string]*hentry
	b       []byte
}

func (o *hobj) cells() []hval { return o.back.cells[o.off : o.off+o.n] }

type heap struct {
	vars    [heapVars]hval
	unknown map[*hback][2]int // windows (off, end) whose element order is unknown after a failed in-place sort
}

func hint(i int) hval { return hval{k: hInt, i: i} }

func (v hval) render(depth int) string {
	switch v.k {
	case hNil:
		return "()"
	case hInt:
		return fmt.Sprint(v.i)
	case hSym:
		return v.s
	case hStr:
		return fmt.Sprintf("%q", v.s)
	case hBool:
		return v.s
	}
	if depth > 12 {
		return "<deep>"
	}
	o := v.obj
	switch o.kind {
	case oList, oVec:
		parts := make([]string, 0, o.n)
		for _, c := range o.cells() {
			parts = append(parts, c.render(depth+1))
		}
		if o.kind == oVec {
			if len(parts) == 0 {
				return "(vector)"
			}
			return "(vector " + strings.Join(parts, " ") + ")"
		}
		if len(parts) == 0 {
			return "()"
		}
		return "(" + strings.Join(parts, " ") + ")"
	case oMap:
		keys := make([]string, 0, len(o.m))
		for k := range o.m {
			keys = append(keys, k)
		}
		sort.Strings(keys)
		parts := []string{"sorted-map"}
		for _, k := range keys {
			e := o.m[k]
			if e.sym {
				parts = append(parts, k)
			} else {
				parts = append(parts, fmt.Sprintf("%q", k))
			}
			parts = append(parts, e.val.render(depth+1))
		}
		return "(" + strings.Join(parts, " ") + ")"
	default:
		parts := []string{"#<bytes"}
		for _, x := range o.b {
			parts = append(parts, fmt.Sprint(int(x)))
		}
		return strings.Join(parts, " ") + ">"
	}
}

// reach collects every object reachable from v.
func reach(v hval, seen map[*hobj]bool) {
	if v.k != hRef || seen[v.obj] {
		return
	}
	seen[v.obj] = true
	switch v.obj.kind {
	case oList, oVec:
		for _, c := range v.obj.cells() {
			reach(c, seen)
		}
	case oMap:
		for _, e := range v.obj.m {
			reach(e.val, seen)
		}
	}
}

func (h *heap) live() map[*hobj]bool {
	seen := map[*hobj]bool{}
	for _, v := range h.vars {
		reach(v, seen)
	}
	return seen
}

// sharedBacking reports whether another live header uses o's backing array.
func (h *heap) sharedBacking(o *hobj) bool {
	for p := range h.live() {
		if p != o && (p.kind == oList || p.kind == oVec) && p.back == o.back {
			return true
		}
	}
	return false
}

// hlen is what (length v) yields for a container, -1 for anything else.
func hlen(v hval) int {
	if v.k != hRef {
		return -1
	}
	switch v.obj.kind {
	case oMap:
		return len(v.obj.m)
	case oBytes:
		return len(v.obj.b)
	}
	return v.obj.n
}

func isSeqV(v hval) bool { return v.k == hRef && (v.obj.kind == oList || v.obj.kind == oVec) }
func allInts(o *hobj) bool {
	for _, c := range o.cells() {
		if c.k != hInt {
			return false
		}
	}
	return true
}

func newSeq(kind okind, cells []hval) hval {
	cp := append([]hval(nil), cells...)
	return hval{k: hRef, obj: &hobj{kind: kind, back: &hback{cells: cp}, n: len(cp)}}
}

func kindOf(t string) okind {
	if t == "vector" {
		return oVec
	}
	return oList
}

// parseKey turns the written key into (name, isSymbol).
func parseKey(k string) (string, bool, string) {
	switch {
	case strings.HasPrefix(k, "\""):
		return strings.Trim(k, "\""), false, k
	case strings.HasPrefix(k, "'"):
		return k[1:], true, k
	default: // keyword: the name includes the colon
		return k, true, k
	}
}

// ------------------------------------------------------------- lisp text

func (op HeapOp) elemSrc(e string) string { return e }

func (op HeapOp) src() string {
	v := func(i int) string { return fmt.Sprintf("v%d", i) }
	set := func(e string) string { return fmt.Sprintf("(set 'v%d %s)", op.Dst, e) }
	el := strings.Join(op.Elems, " ")
	fp := func(body string) string {
		if op.FailAt > 0 {
			return "(sim:fp 1 " + body + ")"
		}
		return body
	}
	switch op.Kind {
	case "list":
		return set("(list " + el + ")")
	case "vector":
		return set("(vector " + el + ")")
	case "map":
		return set("(sorted-map " + el + ")")
	case "bytes":
		return set(fmt.Sprintf("(to-bytes %q)", op.Key))
	case "mkseq":
		return set(fmt.Sprintf("(make-sequence %d %d)", op.I, op.J))
	case "alias":
		return set(v(op.A))
	case "alias-via":
		// forms that hand back the very value they were given
		e := v(op.A)
		switch op.I {
		case 0:
			return set("(progn " + e + ")")
		case 1:
			return set("(if true " + e + " ())")
		case 2:
			return set("(let ((zq " + e + ")) zq)")
		case 3:
			return set("(funcall (lambda (x) x) " + e + ")")
		case 4:
			return set("(car (list " + e + "))")
		case 5:
			return set("(nth (vector 0 " + e + ") 1)")
		case 6:
			return set("(identity " + e + ")")
		default:
			return set("(to-bytes " + e + ")") // bytes are returned as-is
		}
	case "slice":
		return set(fmt.Sprintf("(slice '%s %s %d %d)", op.Type, v(op.A), op.I, op.J))
	case "cdr":
		return set("(cdr " + v(op.A) + ")")
	case "rest":
		return set("(rest " + v(op.A) + ")")
	case "append":
		return set(fmt.Sprintf("(append '%s %s %s)", op.Type, v(op.A), el))
	case "cons":
		return set(fmt.Sprintf("(cons %s %s)", el, v(op.A)))
	case "reverse":
		return set(fmt.Sprintf("(reverse '%s %s)", op.Type, v(op.A)))
	case "map-inc":
		return set(fmt.Sprintf("(map '%s (lambda (x) %s) %s)", op.Type, fp("(+ x 1)"), v(op.A)))
	case "map-rest":
		// the callback keeps the &rest list it was called with
		return set(fmt.Sprintf("(map '%s (lambda (&rest xs) xs) %s)", op.Type, v(op.A)))
	case "select":
		return set(fmt.Sprintf("(select '%s (lambda (x) %s) %s)", op.Type, fp(fmt.Sprintf("(> x %d)", op.I)), v(op.A)))
	case "reject":
		return set(fmt.Sprintf("(reject '%s (lambda (x) %s) %s)", op.Type, fp(fmt.Sprintf("(> x %d)", op.I)), v(op.A)))
	case "zip":
		return set(fmt.Sprintf("(zip '%s %s %s)", op.Type, v(op.A), v(op.B)))
	case "insert-index":
		return set(fmt.Sprintf("(insert-index '%s %s %d %s)", op.Type, v(op.A), op.I, el))
	case "insert-sorted":
		if op.FailAt > 0 {
			return set(fmt.Sprintf("(insert-sorted '%s %s (lambda (a b) (sim:fp 1 (< a b))) %d)", op.Type, v(op.A), op.I))
		}
		return set(fmt.Sprintf("(insert-sorted '%s %s < %d)", op.Type, v(op.A), op.I))
	case "insert-sorted-len":
		// the sequence holds containers ordered by their length; the inserted
		// item is a container too, and it is the caller's own value that must
		// end up in the result
		return set(fmt.Sprintf("(insert-sorted '%s %s (lambda (a b) (< (length a) (length b))) %s)", op.Type, v(op.A), el))
	case "concat":
		return set(fmt.Sprintf("(concat '%s %s %s)", op.Type, v(op.A), v(op.B)))
	case "assoc":
		return set(fmt.Sprintf("(assoc %s %s %s)", v(op.A), op.Key, el))
	case "dissoc":
		return set(fmt.Sprintf("(dissoc %s %s)", v(op.A), op.Key))
	case "keys":
		return set("(keys " + v(op.A) + ")")
	case "nth":
		return set(fmt.Sprintf("(nth %s %d)", v(op.A), op.I))
	case "get":
		return set(fmt.Sprintf("(get %s %s)", v(op.A), op.Key))
	case "get-default":
		return set(fmt.Sprintf("(get-default %s %s %s)", v(op.A), op.Key, el))
	case "key?":
		return set(fmt.Sprintf("(if (key? %s %s) 1 0)", v(op.A), op.Key))
	case "length":
		return set("(length " + v(op.A) + ")")
	case "assoc!":
		return set(fmt.Sprintf("(assoc! %s %s %s)", v(op.A), op.Key, el))
	case "dissoc!":
		return set(fmt.Sprintf("(dissoc! %s %s)", v(op.A), op.Key))
	case "append!":
		return set(fmt.Sprintf("(append! %s %s)", v(op.A), el))
	case "slice-bytes":
		return set(fmt.Sprintf("(slice 'bytes %s %d %d)", v(op.A), op.I, op.J))
	case "append!-bytes":
		return set(fmt.Sprintf("(append! %s %s)", v(op.A), el))
	case "append-bytes!":
		return set(fmt.Sprintf("(append-bytes! %s %q)", v(op.A), op.Key))
	case "append-bytes":
		return set(fmt.Sprintf("(append-bytes %s %q)", v(op.A), op.Key))
	case "append-bytes-v!":
		return set(fmt.Sprintf("(append-bytes! %s %s)", v(op.A), v(op.B)))
	case "append-bytes-v":
		return set(fmt.Sprintf("(append-bytes %s %s)", v(op.A), v(op.B)))
	case "sort":
		cmp := "<"
		if op.Desc {
			cmp = ">"
		}
		less := fmt.Sprintf("(lambda (a b) %s)", fp("("+cmp+" a b)"))
		return set(fmt.Sprintf("(stable-sort %s %s)", less, v(op.A)))
	case "sort-key":
		return set(fmt.Sprintf("(stable-sort < %s (lambda (x) %s))", v(op.A), fp("(- 0 x)")))
	case "sort-mod":
		return set(fmt.Sprintf("(stable-sort < %s (lambda (x) %s))", v(op.A), fp("(mod x 3)")))
	case "copy":
		return set(fmt.Sprintf("(concat '%s %s)", op.Type, v(op.A)))
	case "apply-rest":
		// the callee's &rest list is a value of its own
		return set(fmt.Sprintf("(apply (lambda (&rest zs) zs) %s)", v(op.A)))
	case "apply-sort":
		return set(fmt.Sprintf("(apply (lambda (&rest zs) (stable-sort < zs)) %s)", v(op.A)))
	case "funcall-rest":
		return set(fmt.Sprintf("(funcall (lambda (&rest zs) (stable-sort < zs)) %s)", el))
	case "append-ts-bytes":
		return set(fmt.Sprintf("(append 'bytes %s %s)", v(op.A), el))
	case "sort-str":
		cmp := "string<"
		if op.Desc {
			cmp = "string>"
		}
		return set(fmt.Sprintf("(stable-sort %s %s)", cmp, v(op.A)))
	}
	return "()"
}

// ------------------------------------------------------ model transition

func (h *heap) elem(e string) hval {
	if strings.HasPrefix(e, "v") {
		var i int
		fmt.Sscanf(e, "v%d", &i)
		return h.vars[i]
	}
	var i int
	fmt.Sscanf(e, "%d", &i)
	return hint(i)
}

// valid reports whether op is inside the model's defined domain in state h
// (the generator only emits valid ops; the executor skips invalid ones, which
// only a shrunk history can contain).
func (h *heap) valid(op HeapOp) bool {
	if op.Dst < 0 || op.Dst >= heapVars || op.A < 0 || op.A >= heapVars || op.B < 0 || op.B >= heapVars {
		return false
	}
	a, b := h.vars[op.A], h.vars[op.B]
	if len(h.unknown) > 0 {
		// after a failed in-place sort only a sort that covers the affected
		// window is defined; anything else would compute on an unknown order
		if (op.Kind == "sort" || op.Kind == "sort-key") && isSeqV(a) && h.covers(a.obj) && op.FailAt == 0 {
			return allInts(a.obj)
		}
		if h.touchesUnknown(a) || h.touchesUnknown(b) {
			return false
		}
		for _, e := range op.Elems {
			if strings.HasPrefix(e, "v") && h.touchesUnknown(h.elem(e)) {
				return false
			}
		}
	}
	// no cycles: an element may not reach the container it is stored in
	for _, e := range op.Elems {
		if strings.HasPrefix(e, "v") {
			ev := h.elem(e)
			if ev.k == hRef {
				seen := map[*hobj]bool{}
				reach(ev, seen)
				if a.k == hRef && seen[a.obj] && (strings.HasSuffix(op.Kind, "!")) {
					return false
				}
			}
		}
	}
	switch op.Kind {
	case "list":
		return len(op.Elems) > 0
	case "vector", "bytes", "alias":
		return true
	case "alias-via":
		if op.I >= 7 {
			return a.k == hRef && a.obj.kind == oBytes
		}
		return op.I >= 0
	case "map":
		return len(op.Elems)%2 == 0
	case "mkseq":
		return op.I <= op.J && op.J-op.I <= 8
	case "slice":
		return isSeqV(a) && 0 <= op.I && op.I <= op.J && op.J <= a.obj.n
	case "cdr":
		return a.k == hRef && a.obj.kind == oList
	case "rest":
		return isSeqV(a)
	case "append":
		return isSeqV(a) && len(op.Elems) > 0
	case "cons":
		return len(op.Elems) == 1 && ((a.k == hRef && a.obj.kind == oList) || a.k == hNil)
	case "reverse":
		return isSeqV(a)
	case "map-rest":
		return isSeqV(a) && !h.touchesUnknown(a)
	case "map-inc", "select", "reject":
		return isSeqV(a) && allInts(a.obj)
	case "zip", "concat":
		return isSeqV(a) && isSeqV(b)
	case "insert-index":
		return isSeqV(a) && len(op.Elems) == 1 && 0 <= op.I && op.I <= a.obj.n
	case "insert-sorted-len":
		if !isSeqV(a) || len(op.Elems) != 1 || !strings.HasPrefix(op.Elems[0], "v") {
			return false
		}
		item := h.elem(op.Elems[0])
		if hlen(item) < 0 || item.obj == a.obj || h.touchesUnknown(item) || h.touchesUnknown(a) {
			return false
		}
		cs := a.obj.cells()
		for i, c := range cs {
			if hlen(c) < 0 || c.obj == a.obj || (i > 0 && hlen(cs[i-1]) > hlen(c)) {
				return false
			}
		}
		return true
	case "insert-sorted":
		if !isSeqV(a) || !allInts(a.obj) {
			return false
		}
		cs := a.obj.cells()
		for i := 1; i < len(cs); i++ {
			if cs[i-1].i > cs[i].i {
				return false
			}
		}
		return true
	case "assoc", "assoc!":
		if len(op.Elems) != 1 {
			return false
		}
		if op.Kind == "assoc" && a.k == hNil {
			return true
		}
		if a.k == hRef && a.obj.kind == oMap {
			ev := h.elem(op.Elems[0])
			if ev.k == hRef && op.Kind == "assoc!" {
				seen := map[*hobj]bool{}
				reach(ev, seen)
				if seen[a.obj] {
					return false
				}
			}
			return true
		}
		return false
	case "dissoc", "dissoc!", "keys", "get", "key?":
		return a.k == hRef && a.obj.kind == oMap
	case "get-default":
		return a.k == hRef && a.obj.kind == oMap && len(op.Elems) == 1
	case "nth":
		return isSeqV(a) && op.I >= 0 && op.I < a.obj.n
	case "length":
		return a.k == hRef
	case "append!":
		if a.k != hRef || a.obj.kind != oVec || len(op.Elems) == 0 {
			return false
		}
		// whether a vector with spare capacity reallocates is not part of the
		// documented contract: only append to a vector that is either a fresh
		// view (always reallocates) or the sole header on its storage
		return a.obj.clamped || !h.sharedBacking(a.obj)
	case "append-bytes!", "append-bytes":
		return a.k == hRef && a.obj.kind == oBytes
	case "slice-bytes":
		return a.k == hRef && a.obj.kind == oBytes && 0 <= op.I && op.I <= op.J && op.J <= len(a.obj.b)
	case "append!-bytes":
		if a.k != hRef || a.obj.kind != oBytes || len(op.Elems) == 0 {
			return false
		}
		for _, e := range op.Elems {
			if strings.HasPrefix(e, "v") {
				return false
			}
		}
		return true
	case "sort", "sort-key":
		return isSeqV(a) && allInts(a.obj)
	case "sort-mod":
		if !isSeqV(a) || !allInts(a.obj) {
			return false
		}
		for _, c := range a.obj.cells() {
			if c.i < 0 {
				return false
			}
		}
		return true
	case "copy":
		return isSeqV(a)
	case "apply-rest":
		return a.k == hRef && a.obj.kind == oList // apply takes a list
	case "apply-sort":
		return a.k == hRef && a.obj.kind == oList && allInts(a.obj)
	case "funcall-rest":
		if len(op.Elems) == 0 {
			return false
		}
		for _, e := range op.Elems {
			if strings.HasPrefix(e, "v") {
				return false
			}
		}
		return true
	case "append-bytes-v!", "append-bytes-v":
		return a.k == hRef && a.obj.kind == oBytes && b.k == hRef && b.obj.kind == oBytes
	case "append-ts-bytes":
		if a.k != hRef || a.obj.kind != oBytes || len(op.Elems) == 0 {
			return false
		}
		for _, e := range op.Elems {
			if strings.HasPrefix(e, "v") {
				return false
			}
		}
		return true
	case "sort-str":
		if !isSeqV(a) || a.obj.n == 0 {
			return false
		}
		for _, c := range a.obj.cells() {
			if c.k != hStr {
				return false
			}
		}
		return true
	}
	return false
}

// covers reports whether o's window covers the unknown window on its backing.
func (h *heap) covers(o *hobj) bool {
	w, ok := h.unknown[o.back]
	return ok && o.off <= w[0] && w[1] <= o.off+o.n
}

// outSize is the size of the value the op produces (for the allocation cap).
func (h *heap) outSize(op HeapOp) int {
	a, b := h.vars[op.A], h.vars[op.B]
	n := func(v hval) int {
		if isSeqV(v) {
			return v.obj.n
		}
		if v.k == hRef && v.obj.kind == oBytes {
			return len(v.obj.b)
		}
		return 0
	}
	switch op.Kind {
	case "list", "vector":
		return len(op.Elems)
	case "mkseq":
		return op.J - op.I
	case "append", "append!":
		return n(a) + len(op.Elems)
	case "cons", "insert-index", "insert-sorted", "insert-sorted-len":
		return n(a) + 1
	case "reverse", "map-inc", "map-rest", "select", "reject", "sort", "sort-key", "sort-str", "sort-mod", "copy", "apply-rest", "apply-sort":
		return n(a)
	case "funcall-rest":
		return len(op.Elems)
	case "append-ts-bytes":
		return n(a) + len(op.Elems)
	case "append-bytes-v!", "append-bytes-v":
		return n(a) + n(h.vars[op.B])
	case "zip":
		return 2 * min(n(a), n(b))
	case "concat":
		return n(a) + n(b)
	case "append-bytes!", "append-bytes":
		return n(a) + len(op.Key)
	case "append!-bytes":
		return n(a) + len(op.Elems)
	case "slice-bytes":
		return op.J - op.I
	case "bytes":
		return len(op.Key)
	}
	return 0
}

// apply performs op on the model.  callbackFailed says the injected callback
// fault fired in the real run.
func (h *heap) apply(op HeapOp, callbackFailed bool) {
	a, b := h.vars[op.A], h.vars[op.B]
	var res hval
	kind := kindOf(op.Type)
	elems := func() []hval {
		out := make([]hval, len(op.Elems))
		for i, e := range op.Elems {
			out[i] = h.elem(e)
		}
		return out
	}
	if callbackFailed {
		if op.Kind == "sort" || op.Kind == "sort-key" || op.Kind == "sort-mod" {
			// a failed in-place sort leaves the same elements in an unknown order
			h.unknown[a.obj.back] = [2]int{a.obj.off, a.obj.off + a.obj.n}
		}
		return // nothing else changed, and the assignment did not happen
	}
	switch op.Kind {
	case "list":
		res = newSeq(oList, elems())
	case "vector":
		res = newSeq(oVec, elems())
	case "map":
		o := &hobj{kind: oMap, m: map[string]*hentry{}}
		es := op.Elems
		for i := 0; i+1 < len(es); i += 2 {
			name, sym, _ := parseKey(es[i])
			setKey(o, name, sym, h.elem(es[i+1]))
		}
		res = hval{k: hRef, obj: o}
	case "bytes":
		res = hval{k: hRef, obj: &hobj{kind: oBytes, b: []byte(op.Key)}}
	case "mkseq":
		var cs []hval
		for i := op.I; i < op.J; i++ {
			cs = append(cs, hint(i))
		}
		if len(cs) == 0 {
			res = hval{}
		} else {
			res = newSeq(oList, cs)
		}
	case "alias", "alias-via":
		res = a
	case "slice":
		res = hval{k: hRef, obj: &hobj{kind: kind, back: a.obj.back, off: a.obj.off + op.I, n: op.J - op.I, clamped: true}}
	case "cdr", "rest":
		if a.obj.n < 2 {
			res = hval{}
		} else {
			res = hval{k: hRef, obj: &hobj{kind: oList, back: a.obj.back, off: a.obj.off + 1, n: a.obj.n - 1, clamped: true}}
		}
	case "append":
		res = newSeq(kind, append(append([]hval(nil), a.obj.cells()...), elems()...))
	case "cons":
		var tail []hval
		if a.k == hRef {
			tail = a.obj.cells()
		}
		res = newSeq(oList, append(elems(), tail...))
	case "reverse":
		cs := append([]hval(nil), a.obj.cells()...)
		for i, j := 0, len(cs)-1; i < j; i, j = i+1, j-1 {
			cs[i], cs[j] = cs[j], cs[i]
		}
		res = newSeq(kind, cs)
	case "map-inc":
		var cs []hval
		for _, c := range a.obj.cells() {
			cs = append(cs, hint(c.i+1))
		}
		res = newSeq(kind, cs)
	case "select", "reject":
		var cs []hval
		for _, c := range a.obj.cells() {
			if (c.i > op.I) == (op.Kind == "select") {
				cs = append(cs, c)
			}
		}
		res = newSeq(kind, cs)
	case "zip":
		n := min(a.obj.n, b.obj.n)
		var cs []hval
		for i := 0; i < n; i++ {
			cs = append(cs, newSeq(kind, []hval{a.obj.cells()[i], b.obj.cells()[i]}))
		}
		res = newSeq(kind, cs)
	case "insert-index":
		cs := append([]hval(nil), a.obj.cells()[:op.I]...)
		cs = append(cs, elems()[0])
		cs = append(cs, a.obj.cells()[op.I:]...)
		res = newSeq(kind, cs)
	case "insert-sorted":
		src := a.obj.cells()
		pos := sort.Search(len(src), func(i int) bool { return op.I < src[i].i })
		cs := append([]hval(nil), src[:pos]...)
		cs = append(cs, hint(op.I))
		cs = append(cs, src[pos:]...)
		res = newSeq(kind, cs)
	case "map-rest":
		var cs []hval
		for _, e := range a.obj.cells() {
			cs = append(cs, newSeq(oList, []hval{e}))
		}
		res = newSeq(kind, cs)
	case "insert-sorted-len":
		src := a.obj.cells()
		item := elems()[0]
		pos := sort.Search(len(src), func(i int) bool { return hlen(item) < hlen(src[i]) })
		cs := append([]hval(nil), src[:pos]...)
		cs = append(cs, item)
		cs = append(cs, src[pos:]...)
		res = newSeq(kind, cs)
	case "concat":
		res = newSeq(kind, append(append([]hval(nil), a.obj.cells()...), b.obj.cells()...))
	case "assoc", "dissoc":
		o := &hobj{kind: oMap, m: map[string]*hentry{}}
		if a.k == hRef {
			for k, e := range a.obj.m {
				cp := *e
				o.m[k] = &cp
			}
		}
		name, sym, _ := parseKey(op.Key)
		if op.Kind == "assoc" {
			setKey(o, name, sym, elems()[0])
		} else {
			delete(o.m, name)
		}
		res = hval{k: hRef, obj: o}
	case "assoc!":
		name, sym, _ := parseKey(op.Key)
		setKey(a.obj, name, sym, elems()[0])
		res = a
	case "dissoc!":
		name, _, _ := parseKey(op.Key)
		delete(a.obj.m, name)
		res = a
	case "keys":
		ks := make([]string, 0, len(a.obj.m))
		for k := range a.obj.m {
			ks = append(ks, k)
		}
		sort.Strings(ks)
		var cs []hval
		for _, k := range ks {
			if a.obj.m[k].sym {
				cs = append(cs, hval{k: hSym, s: k})
			} else {
				cs = append(cs, hval{k: hStr, s: k})
			}
		}
		if len(cs) == 0 {
			res = hval{}
		} else {
			res = newSeq(oList, cs)
		}
	case "nth":
		res = a.obj.cells()[op.I]
	case "get":
		name, _, _ := parseKey(op.Key)
		if e, ok := a.obj.m[name]; ok {
			res = e.val
		}
	case "get-default":
		// a key that is present yields its value, whatever that value is
		name, _, _ := parseKey(op.Key)
		if e, ok := a.obj.m[name]; ok {
			res = e.val
		} else {
			res = h.elem(op.Elems[0])
		}
	case "key?":
		name, _, _ := parseKey(op.Key)
		res = hint(0)
		if _, ok := a.obj.m[name]; ok {
			res = hint(1)
		}
	case "length":
		switch a.obj.kind {
		case oMap:
			res = hint(len(a.obj.m))
		case oBytes:
			res = hint(len(a.obj.b))
		default:
			res = hint(a.obj.n)
		}
	case "append!":
		o := a.obj
		vals := elems()
		if o.clamped || h.sharedBacking(o) {
			// reallocates: the vector leaves the storage it shared
			o.back = &hback{cells: append(append([]hval(nil), o.cells()...), vals...)}
			o.off = 0
		} else {
			// sole header: in place or reallocated, nobody can tell
			nb := append(append([]hval(nil), o.back.cells[:o.off+o.n]...), vals...)
			o.back.cells = nb
		}
		o.n += len(vals)
		o.clamped = false
		res = a
	case "slice-bytes":
		// a byte slice is a value of its own: nothing can write through it
		res = hval{k: hRef, obj: &hobj{kind: oBytes, b: append([]byte(nil), a.obj.b[op.I:op.J]...)}}
	case "append!-bytes":
		for _, e := range op.Elems {
			a.obj.b = append(a.obj.b, byte(h.elem(e).i))
		}
		res = a
	case "append-bytes!":
		a.obj.b = append(a.obj.b, []byte(op.Key)...)
		res = a
	case "append-bytes":
		res = hval{k: hRef, obj: &hobj{kind: oBytes, b: append(append([]byte(nil), a.obj.b...), []byte(op.Key)...)}}
	case "append-bytes-v!":
		// the source's bytes are copied: the two values stay independent
		a.obj.b = append(append([]byte(nil), a.obj.b...), b.obj.b...)
		res = a
	case "append-bytes-v":
		res = hval{k: hRef, obj: &hobj{kind: oBytes, b: append(append([]byte(nil), a.obj.b...), b.obj.b...)}}
	case "sort-mod":
		// equal keys keep their order: the sort is stable
		cs := a.obj.cells()
		sort.SliceStable(cs, func(i, j int) bool { return cs[i].i%3 < cs[j].i%3 })
		if h.covers(a.obj) {
			delete(h.unknown, a.obj.back)
		}
		res = a
	case "copy":
		res = newSeq(kind, a.obj.cells())
	case "apply-rest":
		if a.obj.n == 0 {
			res = hval{}
		} else {
			res = newSeq(oList, a.obj.cells())
		}
	case "apply-sort":
		cs := append([]hval(nil), a.obj.cells()...)
		sort.SliceStable(cs, func(i, j int) bool { return cs[i].i < cs[j].i })
		if len(cs) == 0 {
			res = hval{}
		} else {
			res = newSeq(oList, cs)
		}
	case "funcall-rest":
		cs := elems()
		sort.SliceStable(cs, func(i, j int) bool { return cs[i].i < cs[j].i })
		res = newSeq(oList, cs)
	case "append-ts-bytes":
		nb := append([]byte(nil), a.obj.b...)
		for _, e := range op.Elems {
			nb = append(nb, byte(h.elem(e).i))
		}
		res = hval{k: hRef, obj: &hobj{kind: oBytes, b: nb}}
	case "sort-str":
		cs := a.obj.cells()
		sort.SliceStable(cs, func(i, j int) bool {
			if op.Desc {
				return cs[i].s > cs[j].s
			}
			return cs[i].s < cs[j].s
		})
		res = a
	case "sort", "sort-key":
		cs := a.obj.cells()
		desc := op.Desc || op.Kind == "sort-key"
		if h.covers(a.obj) {
			delete(h.unknown, a.obj.back)
		}
		sort.SliceStable(cs, func(i, j int) bool {
			if desc {
				return cs[i].i > cs[j].i
			}
			return cs[i].i < cs[j].i
		})
		res = a
	}
	h.vars[op.Dst] = res
}

func setKey(o *hobj, name string, sym bool, v hval) {
	if e, ok := o.m[name]; ok {
		e.val = v
		if sym {
			e.sym = true // once written as a symbol the key is presented as one
		}
		return
	}
	o.m[name] = &hentry{sym: sym, val: v}
}

// -------------------------------------------------------------- generator

func (heapEngine) Gen(r *Rand, tier string) any {
	c := &HeapCase{}
	c.Knobs.TRO = PickStr(r, []string{"", "", "debugger"})
	if r.Chance(1, 3) {
		c.Knobs.MaxAlloc = r.Range(2, 8)
	}
	h := &heap{unknown: map[*hback][2]int{}}
	for i := range h.vars {
		h.vars[i] = hint(0)
	}
	n := r.Range(8, 40)
	keys := []string{"\"k1\"", "'k1", "\"k2\"", "'k2", ":k1", "'k3", "\"k3\"", ":k2"}
	if r.Chance(1, 3) {
		// maps whose keys are all written as strings: their key lists can be sorted as strings
		keys = []string{"\"k1\"", "\"k2\"", "\"k3\"", "\"k4\"", "\"k0\""}
	}
	elem := func() string {
		if r.Chance(1, 3) {
			return fmt.Sprintf("v%d", r.Intn(heapVars))
		}
		return fmt.Sprint(r.Range(0, 9))
	}
	elemsN := func(lo, hi int) []string {
		k := r.Range(lo, hi)
		out := make([]string, k)
		for i := range out {
			out[i] = elem()
		}
		return out
	}
	intsN := func(lo, hi int) []string {
		k := r.Range(lo, hi)
		out := make([]string, k)
		for i := range out {
			out[i] = fmt.Sprint(r.Range(0, 9))
		}
		return out
	}
	kinds := []string{"list", "vector", "map", "bytes", "mkseq", "alias", "alias-via", "alias-via", "slice", "slice", "cdr", "rest", "append", "append", "cons", "reverse",
		"map-inc", "select", "reject", "zip", "insert-index", "insert-sorted", "concat", "assoc", "dissoc", "keys", "nth", "get", "get-default", "get-default", "key?", "length",
		"assoc!", "assoc!", "dissoc!", "append!", "append!", "append!", "append-bytes!", "append-bytes", "slice-bytes", "append!-bytes", "sort", "sort", "sort", "sort-key", "sort-str", "sort-str", "keys", "sort-mod", "sort-mod", "copy", "copy", "append-ts-bytes", "append-bytes-v!", "append-bytes-v!", "append-bytes-v", "apply-rest", "apply-rest", "apply-sort", "apply-sort", "funcall-rest", "insert-sorted-len", "insert-sorted-len", "insert-sorted-len", "map-rest", "map-rest"}
	var planned []HeapOp
	for len(c.Ops) < n {
		// repair: a backing left in unknown order is re-sorted next
		var op HeapOp
		repaired := false
		if len(h.unknown) == 0 {
			for len(planned) > 0 && !repaired {
				op, planned = planned[0], planned[1:]
				repaired = h.valid(op)
			}
		}
		for i, v := range h.vars {
			if isSeqV(v) && h.covers(v.obj) {
				op = HeapOp{Kind: "sort", Dst: i, A: i}
				repaired = true
				break
			}
		}
		if !repaired {
			if len(h.unknown) > 0 {
				// no variable covers it: retire every variable that can see it
				for i, v := range h.vars {
					if h.touchesUnknown(v) {
						op = HeapOp{Kind: "vector", Dst: i, Elems: []string{"0"}}
						repaired = true
						break
					}
				}
				if !repaired {
					h.unknown = map[*hback][2]int{}
				}
			}
		}
		if !repaired {
			ok := false
			for try := 0; try < 30 && !ok; try++ {
				op = HeapOp{Kind: PickStr(r, kinds), Dst: r.Intn(heapVars), A: r.Intn(heapVars), B: r.Intn(heapVars), Type: PickStr(r, []string{"list", "vector"})}
				// prefer an operand of the right kind when one exists
				want := func(pred func(hval) bool) {
					var cands []int
					for vi, v := range h.vars {
						if pred(v) {
							cands = append(cands, vi)
						}
					}
					if len(cands) > 0 && r.Chance(3, 4) {
						op.A = cands[r.Intn(len(cands))]
					}
				}
				isKind := func(k okind) func(hval) bool {
					return func(v hval) bool { return v.k == hRef && v.obj.kind == k }
				}
				switch op.Kind {
				case "sort-str":
					want(func(v hval) bool {
						if !isSeqV(v) || v.obj.n < 2 {
							return false
						}
						for _, c := range v.obj.cells() {
							if c.k != hStr {
								return false
							}
						}
						return true
					})
				case "sort", "sort-key", "sort-mod", "map-inc", "select", "reject", "insert-sorted":
					want(func(v hval) bool { return isSeqV(v) && v.obj.n >= 2 && allInts(v.obj) })
				case "insert-sorted-len":
					want(func(v hval) bool {
						if !isSeqV(v) {
							return false
						}
						for _, c := range v.obj.cells() {
							if hlen(c) < 0 {
								return false
							}
						}
						return true
					})
				case "keys", "get", "get-default", "key?", "assoc", "assoc!", "dissoc", "dissoc!":
					want(isKind(oMap))
				case "append!":
					want(isKind(oVec))
				case "append-bytes-v!", "append-bytes-v":
					want(isKind(oBytes))
					if r.Bool() {
						// prefer an empty accumulator
						for vi, v := range h.vars {
							if isKind(oBytes)(v) && len(v.obj.b) == 0 {
								op.A = vi
							}
						}
					}
					var cands []int
					for vi, v := range h.vars {
						if isKind(oBytes)(v) {
							cands = append(cands, vi)
						}
					}
					if len(cands) > 0 {
						op.B = cands[r.Intn(len(cands))]
					}
				case "append-bytes!", "append-bytes", "slice-bytes", "append!-bytes", "append-ts-bytes":
					want(isKind(oBytes))
				case "apply-sort":
					want(func(v hval) bool { return isKind(oList)(v) && v.obj.n >= 2 && allInts(v.obj) })
				case "apply-rest":
					want(isKind(oList))
				case "map-rest":
					want(func(v hval) bool { return isSeqV(v) && v.obj.n >= 2 })
				case "slice", "rest", "reverse", "append", "nth", "concat", "zip", "insert-index", "copy":
					want(isSeqV)
				case "cdr", "cons":
					want(isKind(oList))
				}
				a := h.vars[op.A]
				switch op.Kind {
				case "list":
					if r.Chance(2, 3) {
						op.Elems = intsN(1, 6)
					} else {
						op.Elems = elemsN(1, 5)
					}
				case "vector":
					if r.Chance(2, 3) {
						op.Elems = intsN(0, 6)
					} else {
						op.Elems = elemsN(0, 5)
					}
				case "map":
					k := r.Range(0, 4)
					for i := 0; i < k; i++ {
						op.Elems = append(op.Elems, PickStr(r, keys), elem())
					}
				case "bytes", "append-bytes!", "append-bytes":
					op.Key = PickStr(r, []string{"a", "bc", "", "xyz"})
				case "mkseq":
					op.I = r.Range(0, 3)
					op.J = op.I + r.Range(0, 5)
				case "slice":
					if isSeqV(a) {
						op.I = r.Range(0, a.obj.n)
						op.J = r.Range(op.I, a.obj.n)
					}
				case "slice-bytes":
					if a.k == hRef && a.obj.kind == oBytes {
						op.I = r.Range(0, len(a.obj.b))
						op.J = r.Range(op.I, len(a.obj.b))
					}
				case "insert-sorted-len":
					// the item: a variable holding a map or a list by preference
					// (containers whose copy does not share storage)
					var cands []int
					for vi, v := range h.vars {
						if hlen(v) >= 0 && vi != op.A && (v.obj.kind == oMap || v.obj.kind == oList || r.Chance(1, 4)) {
							cands = append(cands, vi)
						}
					}
					if len(cands) > 0 {
						op.Elems = []string{fmt.Sprintf("v%d", cands[r.Intn(len(cands))])}
					}
				case "funcall-rest":
					op.Elems = intsN(2, 4)
				case "alias-via":
					op.I = r.Range(0, 6)
					if a.k == hRef && a.obj.kind == oBytes && r.Bool() {
						op.I = 7
					}
				case "append!-bytes", "append-ts-bytes":
					op.Elems = intsN(1, 3)
				case "append", "append!":
					op.Elems = elemsN(1, 3)
				case "cons", "insert-index", "assoc", "assoc!":
					op.Elems = elemsN(1, 1)
					if isSeqV(a) {
						op.I = r.Range(0, a.obj.n)
					}
					op.Key = PickStr(r, keys)
				case "dissoc", "dissoc!", "get", "key?":
					op.Key = PickStr(r, keys)
				case "get-default":
					op.Key = PickStr(r, keys)
					op.Elems = elemsN(1, 1)
				case "select", "reject", "insert-sorted":
					op.I = r.Range(0, 9)
				case "nth":
					if isSeqV(a) && a.obj.n > 0 {
						op.I = r.Intn(a.obj.n)
					}
				case "sort", "sort-str":
					op.Desc = r.Bool()
				}
				switch op.Kind {
				case "map-inc", "select", "reject", "sort", "sort-key", "sort-mod", "insert-sorted":
					if r.Chance(1, 6) {
						op.FailAt = r.Range(1, 4)
					}
				}
				ok = h.valid(op)
			}
			if !ok {
				op = HeapOp{Kind: "vector", Dst: r.Intn(heapVars), Elems: intsN(1, 5)}
			}
		}
		c.Ops = append(c.Ops, op)
		// advance the generator's model (assume the callback fault fires when it can)
		fails := false
		if op.FailAt > 0 {
			calls := callbackCalls(h, op)
			fails = calls >= op.FailAt
		}
		if c.Knobs.MaxAlloc > 0 && h.outSize(op) > c.Knobs.MaxAlloc {
			// may be refused: keep the model on the "refused" branch only when it certainly is; the
			// executor follows what the interpreter actually did
			continue
		}
		h.apply(op, fails)
		// two byte strings joined in place: grow each of them in place afterwards
		if op.Kind == "append-bytes-v!" && !fails && len(planned) == 0 && op.A != op.B && r.Chance(2, 3) {
			planned = append(planned,
				HeapOp{Kind: "append-bytes!", Dst: op.B, A: op.B, Key: "q", Type: "list"},
				HeapOp{Kind: "append-bytes!", Dst: op.A, A: op.A, Key: "r", Type: "list"})
		}
		// a container that holds containers: reach in, change the element in
		// place, and let the closing inspection look at both
		if res := h.vars[op.Dst]; !fails && len(planned) == 0 && isSeqV(res) && res.obj.n > 0 && r.Chance(1, 3) {
			cs := res.obj.cells()
			var nested []int
			for i, e := range cs {
				if e.k == hRef {
					nested = append(nested, i)
				}
			}
			if len(nested) > 0 {
				i := nested[r.Intn(len(nested))]
				t := (op.Dst + 1 + r.Intn(heapVars-1)) % heapVars
				planned = append(planned, HeapOp{Kind: "nth", Dst: t, A: op.Dst, I: i, Type: "list"})
				switch cs[i].obj.kind {
				case oVec:
					planned = append(planned, HeapOp{Kind: "append!", Dst: t, A: t, Elems: intsN(1, 2), Type: "list"})
				case oMap:
					planned = append(planned, HeapOp{Kind: "assoc!", Dst: t, A: t, Key: PickStr(r, keys), Elems: intsN(1, 1), Type: "list"})
				case oBytes:
					planned = append(planned, HeapOp{Kind: "append-bytes!", Dst: t, A: t, Key: "q", Type: "list"})
				case oList:
					planned = append(planned, HeapOp{Kind: "sort", Dst: t, A: t, Type: "list"})
				}
			}
		}
	}
	return c
}

// callbackCalls is a lower bound on how often the op invokes its callback.
func callbackCalls(h *heap, op HeapOp) int {
	a := h.vars[op.A]
	if !isSeqV(a) {
		return 0
	}
	switch op.Kind {
	case "map-inc", "select", "reject", "sort-key", "sort-mod":
		return a.obj.n
	case "sort":
		return a.obj.n - 1
	case "insert-sorted":
		return bits.Len(uint(a.obj.n)) // probes of a binary search
	}
	return 0
}

// -------------------------------------------------------------------- run

func (heapEngine) Run(ci any, st *Stats) *Violation {
	c := ci.(*HeapCase)
	k := c.Knobs
	k.MaxSteps = 300000
	w, err := NewWorld(k)
	if err != nil {
		return Violf("harness", "%v", err)
	}
	var init strings.Builder
	for i := 0; i < heapVars; i++ {
		fmt.Fprintf(&init, "(set 'v%d 0) ", i)
	}
	if o := w.LoadString(init.String()); o.IsErr {
		return Violf("harness", "init: %s", o.Result())
	}
	inspect := "(sim:probe 'h"
	for i := 0; i < heapVars; i++ {
		inspect += fmt.Sprintf(" v%d", i)
	}
	inspect += ")"
	h := &heap{unknown: map[*hback][2]int{}}
	for i := range h.vars {
		h.vars[i] = hint(0)
	}
	hash := NewHash()
	faulted := false
	for i, op := range c.Ops {
		if !h.valid(op) {
			st.Inc("op_outside_model_skipped")
			continue
		}
		w.Faults = nil
		w.fpHits = map[int]int{}
		w.Fired = nil
		if op.FailAt > 0 {
			w.Faults = []FaultSpec{{FP: 1, Hit: op.FailAt, Kind: "error", Cond: "cb-fault"}}
		}
		src := op.src()
		out := w.LoadString(src)
		st.Runs++
		st.SimSteps += out.Steps
		st.Inc("op_" + op.Kind)
		fail := func(oracle, format string, a ...any) *Violation {
			return Violf(oracle, "step %d %s: %s", i, src, fmt.Sprintf(format, a...))
		}
		if out.GoPanic != "" {
			return fail("go-panic-escaped", "%s", out.GoPanic)
		}
		cbFailed := len(w.Fired) > 0
		if out.IsErr {
			switch {
			case cbFailed && out.Cond == "cb-fault":
				st.Inc("fault_callback_failed_mid_operation")
				if op.Kind == "sort" || op.Kind == "sort-key" || op.Kind == "sort-mod" {
					st.Inc("reach_failed_callback_mid_sort")
				}
				faulted = true
				h.apply(op, true)
			case c.Knobs.MaxAlloc > 0 && h.outSize(op) > c.Knobs.MaxAlloc:
				st.Inc("fault_allocation_refused")
				if strings.HasSuffix(op.Kind, "!") || op.Kind == "sort" {
					st.Inc("reach_allocation_refusal_on_mutating_op")
				}
				faulted = true
				// refused: nothing may have changed
			default:
				return fail("unexpected-error", "the operation is valid in the model but the interpreter raised %q", out.Result())
			}
		} else {
			if cbFailed {
				return fail("callback-error-lost", "the callback raised an error but the operation returned %s", out.Result())
			}
			// reach probes
			a := h.vars[op.A]
			if (op.Kind == "sort" || op.Kind == "sort-key" || op.Kind == "sort-mod") && isSeqV(a) && a.obj.clamped && h.sharedBacking(a.obj) {
				st.Inc("reach_sort_through_view")
			}
			if op.Kind == "append!" && a.k == hRef && a.obj.clamped && h.sharedBacking(a.obj) {
				st.Inc("reach_append_to_view_with_live_source")
			}
			if op.Kind == "slice" && isSeqV(a) && a.obj.clamped {
				st.Inc("reach_view_of_view")
			}
			h.apply(op, false)
			// the returned value is the new value of the destination
			if got, want := stripQuotes(out.Value), h.vars[op.Dst].render(0); got != want && !h.touchesUnknown(h.vars[op.Dst]) {
				return fail("result-differs", "returned %s, model %s", got, want)
			}
		}
		// re-inspect every variable
		evFrom := len(w.Events)
		io := w.LoadString(inspect)
		if io.IsErr || len(w.Events) != evFrom+1 {
			return fail("inspection-failed", "%s", io.Result())
		}
		real := splitTop(stripQuotes(w.Events[evFrom].Args))
		w.Events = w.Events[:evFrom]
		if len(real) != heapVars {
			return fail("harness", "inspection returned %d values", len(real))
		}
		for vi := 0; vi < heapVars; vi++ {
			want := h.vars[vi].render(0)
			if real[vi] == want {
				continue
			}
			if h.touchesUnknown(h.vars[vi]) {
				// same elements, order unknown until the next full sort.  Only a
				// value whose own window covers the affected window keeps its
				// multiset; a partial view may gain and lose elements.
				if mv := h.vars[vi]; isSeqV(mv) && h.covers(mv.obj) {
					if sortedTokens(real[vi]) == sortedTokens(want) {
						continue
					}
					return fail("value-changed", "after a failed in-place sort v%d is %s; the model allows any order of %s", vi, real[vi], want)
				}
				st.Inc("unknown_order_value_not_compared")
				continue
			}
			oracle := "value-changed"
			if vi == op.Dst || (isMutating(op.Kind) && vi == op.A) {
				oracle = "target-differs"
			}
			return fail(oracle, "v%d is %s, model %s", vi, real[vi], want)
		}
		hash = hash.Str(op.Kind).Str(real[op.Dst])
	}
	st.NoteHash(hash, faulted)
	return nil
}

func isMutating(k string) bool {
	return strings.HasSuffix(k, "!") || k == "sort" || k == "sort-key" || k == "sort-mod" || k == "sort-str" || k == "append!-bytes"
}

func (h *heap) touchesUnknown(v hval) bool {
	if len(h.unknown) == 0 {
		return false
	}
	seen := map[*hobj]bool{}
	reach(v, seen)
	for o := range seen {
		if o.kind == oList || o.kind == oVec {
			if w, ok := h.unknown[o.back]; ok && o.off < w[1] && w[0] < o.off+o.n {
				return true
			}
		}
	}
	return false
}

func sortedTokens(s string) string {
	f := strings.Fields(strings.NewReplacer("(", " ( ", ")", " ) ").Replace(s))
	sort.Strings(f)
	return strings.Join(f, " ")
}

// splitTop splits a rendered argument list into its top-level values.
func splitTop(s string) []string {
	var out []string
	depth, start, bytesDepth := 0, -1, 0
	for i := 0; i < len(s); i++ {
		c := s[i]
		if start < 0 && c != ' ' {
			start = i
		}
		switch {
		case c == '"':
			for i++; i < len(s) && s[i] != '"'; i++ {
				if s[i] == '\\' {
					i++
				}
			}
		case c == '#' && i+1 < len(s) && s[i+1] == '<':
			depth++
			bytesDepth++
			i++
		case c == '>' && bytesDepth > 0:
			depth--
			bytesDepth--
		case c == '(':
			depth++
		case c == ')':
			depth--
		case c == ' ' && depth == 0:
			if start >= 0 && start < i {
				out = append(out, s[start:i])
			}
			start = -1
		}
	}
	if start >= 0 {
		out = append(out, s[start:])
	}
	return out
}

func (heapEngine) Shrink(ci any) []any {
	c := ci.(*HeapCase)
	var out []any
	for i := len(c.Ops) - 1; i >= 0; i-- {
		d := *c
		d.Ops = append(append([]HeapOp(nil), c.Ops[:i]...), c.Ops[i+1:]...)
		out = append(out, &d)
	}
	if c.Knobs != (Knobs{}) {
		d := *c
		d.Knobs = Knobs{}
		out = append(out, &d)
	}
	for i, op := range c.Ops {
		if op.FailAt > 0 {
			d := *c
			d.Ops = append([]HeapOp(nil), c.Ops...)
			d.Ops[i].FailAt = 0
			out = append(out, &d)
		}
	}
	return out
}

var _ = lisp.Nil
