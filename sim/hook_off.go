//go:build !verif

package sim

const hookAvailable = false

func setVerifHook(f func(point, detail string)) {}
