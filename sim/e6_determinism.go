package sim

import (
	"bytes"
	"context"
	"encoding/json"
	"fmt"
	"github.com/luthersystems/elps/parser"
	"os"
	"regexp"
	"runtime"
	"sort"
	"strconv"
	"strings"
	"sync"
	"testing"
	"testing/synctest"

	"github.com/luthersystems/elps/lisp"
)

// Engine E6 `determinism` — property C10.  The determinism harness of the
// simulator itself, pointed at the interpreter: one (source, configuration)
// is evaluated under every source of nondeterminism the property quantifies
// over, each under simulator control, and the transcripts must be
// byte-identical.

type DetCase struct {
	Forms  []*Node `json:"forms"`
	Noise  []*Node `json:"noise"` // unrelated program run in other runtimes before / between / beside
	Knobs  Knobs   `json:"knobs"`
	Chunks []int   `json:"chunks"` // reader chunk sizes for the stream repetitions
	Pad    int     `json:"pad"`    // bytes of comment padding before the program (crosses the scanner window when large)
	Sched  []int   `json:"sched"`
	Burst  int     `json:"burst"`
	Clock  bool    `json:"clock"`                            // program reads the clock / sleeps: run inside a fake-clock bubble
	Expect string  `json:"expect_transcript_hash,omitempty"` // set by the driver for cross-process replays
	// CancelAt: every repetition runs under a context that reports
	// cancellation (or, with Deadline, an expired deadline) from its k-th
	// poll on: the point of interruption is the same in every repetition, so
	// the transcript -- the error message above all -- must be too
	CancelAt int64 `json:"cancel_at,omitempty"`
	Deadline bool  `json:"deadline,omitempty"`
	// Shared: the source is parsed ONCE (a lisp.Program an embedder caches)
	// and that one parse is loaded into every fresh runtime of the
	// repetitions; the first run parses freshly
	Shared bool `json:"shared,omitempty"`
}

type detEngine struct{ t *testing.T }

func init() { Register(&detEngine{}) }

func (e *detEngine) SetT(t *testing.T) { e.t = t }
func (*detEngine) Name() string        { return "determinism" }
func (*detEngine) Property() string    { return "C10" }
func (*detEngine) NumCases(tier string) int {
	if tier == "thorough" {
		return 40000
	}
	return 1600
}
func (*detEngine) Decode(raw []byte) (any, error) {
	c := &DetCase{}
	return c, json.Unmarshal(raw, c)
}

// --------------------------------------------------------------- generator

// callable names of the language and library packages, gathered once from a
// real runtime (sorted, so that generation is deterministic).
var detCallables []string

func callables() []string {
	if detCallables != nil {
		return detCallables
	}
	w, err := NewWorld(Knobs{Stdlib: true})
	if err != nil {
		return nil
	}
	skip := map[string]bool{"load-file": true, "load-string": true, "load-bytes": true, "debug-stack": false, "in-package": true, "use-package": true,
		"export": true, "set": true, "defun": true, "defmacro": true, "deftype": true, "defconst": true, "rethrow": true, "eval": true, "gensym": false}
	for _, pkg := range []string{"lisp", "json", "string", "math", "regexp", "base64", "s", "elpspath", "golang", "help"} {
		p := w.RT.Registry.Package(pkg)
		if p == nil {
			continue
		}
		names := p.Externals()
		sort.Strings(names)
		for _, n := range names {
			if skip[n] {
				continue
			}
			v, ok := p.Symbol(n)
			if !ok || v.Type != lisp.LFun || v.IsSpecialFun() {
				continue
			}
			if pkg == "lisp" {
				detCallables = append(detCallables, n)
			} else {
				detCallables = append(detCallables, pkg+":"+n)
			}
		}
	}
	return detCallables
}

// every bound name of the language and library packages whose value is NOT a
// function (type definitions, constants, ...), exported or not: pkg:name
// reaches them all
var detValues []string

func plainValues() []string {
	if detValues != nil {
		return detValues
	}
	w, err := NewWorld(Knobs{Stdlib: true})
	if err != nil {
		return nil
	}
	for _, pkg := range []string{"lisp", "json", "string", "math", "regexp", "base64", "s", "time", "help"} {
		p := w.RT.Registry.Package(pkg)
		if p == nil {
			continue
		}
		for _, n := range p.SymbolNames() {
			v, ok := p.Symbol(n)
			if !ok || v.Type == lisp.LFun || strings.HasPrefix(n, "_") {
				continue
			}
			detValues = append(detValues, pkg+":"+n)
		}
	}
	sort.Strings(detValues)
	return detValues
}

type detGen struct {
	r   *Rand
	n   int
	out []*Node
	big bool // the program contains a large reduction: keep scheduling coarse
}

func (g *detGen) sym(p string) string { g.n++; return fmt.Sprintf("%s%d", p, g.n) }

func (g *detGen) key() *Node {
	k := fmt.Sprintf("k%02d", g.r.Intn(40))
	switch g.r.Intn(3) {
	case 0:
		return Str(k)
	case 1:
		return QS(k)
	default:
		return A(":" + k)
	}
}

func (g *detGen) scalar() *Node {
	switch g.r.Intn(5) {
	case 0:
		return I(g.r.Range(-5, 99))
	case 1:
		return Str(PickStr(g.r, []string{"a", "zz", "hello world", ""}))
	case 2:
		return QS(PickStr(g.r, []string{"foo", "bar", "baz"}))
	case 3:
		return A(PickStr(g.r, []string{"1.5", "-0.25", "true", "false", "()"}))
	default:
		return Call("list", I(g.r.Intn(9)), Str("x"))
	}
}

func (g *detGen) mapExpr(d int) *Node {
	n := g.r.Range(4, 12)
	xs := []*Node{A("sorted-map")}
	for i := 0; i < n; i++ {
		xs = append(xs, g.key())
		if d > 0 && g.r.Chance(1, 5) {
			xs = append(xs, g.mapExpr(d-1))
		} else if g.r.Chance(1, 6) {
			xs = append(xs, Call("vector", g.scalar(), g.scalar()))
		} else {
			xs = append(xs, g.scalar())
		}
	}
	return L(xs...)
}

func (g *detGen) closure() *Node {
	n := g.r.Range(2, 5)
	var binds []*Node
	var sum []*Node
	for i := 0; i < n; i++ {
		v := g.sym("cv")
		binds = append(binds, L(A(v), g.scalar()))
		sum = append(sum, A(v))
	}
	return L(A("let"), L(binds...), L(A("lambda"), L(A("x")), Call("list", append([]*Node{A("x")}, sum...)...)))
}

// partial is a partially applied function: its rendering lists the arguments
// bound so far.
func (g *detGen) partial() *Node {
	n := g.r.Range(3, 7)
	var formals, args []*Node
	for i := 0; i < n; i++ {
		formals = append(formals, A(g.sym("pa")))
	}
	k := g.r.Range(2, n-1)
	for i := 0; i < k; i++ {
		args = append(args, g.scalar())
	}
	// shuffle the formal names so that declaration order is not sorted order
	for i := len(formals) - 1; i > 0; i-- {
		j := g.r.Intn(i + 1)
		formals[i], formals[j] = formals[j], formals[i]
	}
	return L(append([]*Node{A("funcall"), L(A("lambda"), L(formals...), Call("list", formals[0], formals[1]))}, args...)...)
}

// jsonMap is a map decoded from JSON text (a different map implementation).
func (g *detGen) jsonMap() *Node {
	n := g.r.Range(4, 11)
	var parts []string
	seen := map[string]bool{}
	for i := 0; i < n; i++ {
		k := fmt.Sprintf("j%02d", g.r.Intn(60))
		if seen[k] {
			continue
		}
		seen[k] = true
		parts = append(parts, fmt.Sprintf("%q: %s", k, PickStr(g.r, []string{"1", "\"s\"", "[1,2]", "null", "true", "{\"z\":1,\"a\":2,\"m\":3}", "2.5"})))
	}
	return Call("json:load-string", Str("{"+strings.Join(parts, ", ")+"}"))
}

func (g *detGen) value(d int) *Node {
	switch g.r.Pick([]int{6, 3, 2, 2, 1, 0, 3}) {
	case 5: // not generated: ELPS has no partial application, the call only errors
		return g.partial()
	case 6:
		if g.r.Bool() {
			return Call("keys", g.jsonMap())
		}
		return g.jsonMap()
	case 0:
		return g.mapExpr(d)
	case 1:
		return g.closure()
	case 2:
		return Call("vector", g.mapExpr(0), g.scalar())
	case 3:
		return Call("list", g.scalar(), g.mapExpr(0), g.closure())
	default:
		return g.scalar()
	}
}

func (g *detGen) observe(v *Node) *Node {
	switch g.r.Pick([]int{5, 3, 3, 3, 2, 2, 2, 2, 2, 2, 1}) {
	case 0:
		return v
	case 1:
		return Call("keys", g.mapExpr(0))
	case 2:
		return Call("format-string", Str("<{}>"), v)
	case 3:
		return Call("format-string", Str("{} / {}"), v, g.scalar())
	case 4:
		return Call("debug-print", v, g.scalar())
	case 5:
		return Call("json:dump-string", g.mapExpr(1))
	case 6:
		return Call("equal?", g.mapExpr(0), g.mapExpr(0))
	case 7:
		return Call("map", QS("list"), L(A("lambda"), L(A("k")), Call("to-string", A("k"))), Call("keys", g.mapExpr(0)))
	case 8:
		return Call("list", Call("gensym"), Call("gensym"))
	case 9:
		f := g.sym("df")
		g.out = append(g.out, L(A("defun"), A(f), L(A("a")), Call("progn", Call("debug-stack"), A("a"))))
		return Call(f, Call(f, v))
	default:
		return Call("ignore-errors", Call("error", QS("boom"), v))
	}
}

func (g *detGen) form() *Node {
	switch g.r.Pick([]int{10, 3, 2, 2, 2, 2, 1, 2, 3, 2, 2, 2, 3, 3, 1, 8, 3, 3, 3, 3, 3, 4}) {
	case 21:
		// values of the packages that are not functions (type definitions,
		// constants), and user-defined types, put where a type or a function
		// is expected, with too few, the right number and too many arguments
		var v string
		if vs := plainValues(); len(vs) > 0 && g.r.Chance(2, 3) {
			v = vs[g.r.Intn(len(vs))]
		} else {
			v = g.sym("ty")
			body := PickNode(g.r, Call("list", A("p"), A("q")), Call("sorted-map", Str("p"), A("p")), Call("error", QS("bad-ty"), A("p")), Call("car", A("q")))
			g.out = append(g.out, L(A("deftype"), A(v), L(A("p"), A("q")), body))
		}
		var args []*Node
		for i := g.r.Range(0, 3); i > 0; i-- {
			args = append(args, PickNode(g.r, g.scalar(), QS("point"), g.closure(), g.mapExpr(0)))
		}
		return PickNode(g.r,
			L(append([]*Node{A("new"), A(v)}, args...)...),
			L(append([]*Node{A(v)}, args...)...),
			L(append([]*Node{A("funcall"), A(v)}, args...)...),
			Call("format-string", Str("{} {}"), A(v), Call("type", A(v))),
			Call("type?", A(v), PickNode(g.r, g.scalar(), g.mapExpr(0))),
			Call("to-string", A(v)),
			Call("list", A(v), Call("new", A(v))))
	case 20:
		// errors that could name several offenders at once
		pk := g.sym("un")
		switch g.r.Intn(4) {
		case 0:
			// a package exporting several names it never binds
			names := []*Node{A("export")}
			for _, n := range []string{"zeta", "alpha", "mu", "omega", "beta", "kappa"}[:g.r.Range(2, 6)] {
				names = append(names, QS(n))
			}
			g.out = append(g.out, Call("progn", Call("in-package", QS(pk)), L(names...), Call("in-package", QS("user"))))
			return Call("use-package", QS(pk))
		case 1:
			return Call("sorted-map", Call("list", I(1)), I(1), Call("vector", I(2)), I(2), A("car"), I(3))
		case 2:
			return L(A("let"), L(L(A("a"), I(1)), L(A("a"), I(2)), L(A("b"), I(3)), L(A("b"), I(4))), Call("list", A("a"), A("b")))
		default:
			return L(L(A("lambda"), L(A("&key"), A("p"), A("q")), Call("list", A("p"), A("q"))), A(":r"), I(1), A(":s"), I(2), A(":t"), I(3))
		}
	case 18:
		// text handed to the library parsers, well-formed and not quite: what
		// they make of it may not depend on the host (time zone, locale)
		ts := PickStr(g.r, []string{"2024-01-02T03:04:05Z", "2024-01-02T03:04:05", "2024-01-02T03:04:05.5", "2024-01-02 03:04:05", "2024-01-02T03:04:05+05:30",
			"2024-06-30T23:59:59-08:00", "2024-01-02", "2024-01-02T03:04Z", "2024-01-02t03:04:05z", "2024-03-10T02:30:00", "2024-11-03T01:30:00", "0000-01-01T00:00:00Z"})
		switch g.r.Intn(5) {
		case 0:
			return Call("time:format-rfc3339-nano", Call("time:parse-rfc3339", Str(ts)))
		case 1:
			return Call("time:format-rfc3339", Call("time:parse-rfc3339-nano", Str(ts)))
		case 2:
			return Call("to-string", Call("time:parse-duration", Str(PickStr(g.r, []string{"1h", "1.5h", "90", "1d", "1h 5m", "-5ms", "1µs", "1us", "١s"}))))
		case 3:
			return Call("list", Call("to-int", Str(PickStr(g.r, []string{"12", "1,5", "1.5", "١٢", " 7", "0x10", "1e3"}))), Call("to-float", Str(PickStr(g.r, []string{"1.5", "1,5", "1e3", "inf", "NaN", ".5"}))))
		default:
			return Call("time:format-rfc3339-nano", Call("time:time-add", Call("time:parse-rfc3339", Str("2024-03-10T09:59:59Z")), Call("time:parse-duration", Str("1s"))))
		}
	case 19:
		// a misspelt reference with several equally near candidates: whatever
		// the message says (or suggests), it says it every time
		fam := g.sym("fam")
		for _, sfx := range []string{"-a", "-b", "-c"} {
			g.out = append(g.out, Call("progn", Call("in-package", QS(fam+sfx)), Call("export", QS("val-a"), QS("val-b"), QS("val-c")),
				Call("set", QS("val-a"), I(1)), Call("set", QS("val-b"), I(2)), Call("set", QS("val-c"), I(3)),
				L(A("defun"), A("fn-a"), L(), I(1)), L(A("defun"), A("fn-b"), L(), I(2)), Call("in-package", QS("user"))))
		}
		return PickNode(g.r,
			A(fam+"-d:val-a"),
			A(fam+"-a:val-d"),
			L(A(fam+"-b:fn-c")),
			Call("use-package", QS(fam+"-d")),
			Call("set", QS(fam+"-e:val-a"), I(1)),
			L(A("let"), L(L(A("item-a"), I(1)), L(A("item-b"), I(2)), L(A("item-c"), I(3))), A("item-d")),
			L(A("json:dmp-string"), I(1)),
			L(A("time:parse-rfc3338"), Str("x")),
			A("jsn:dump-string"),
			A("tmie:utc-now"),
			L(A("flet"), L(L(A("go-a"), L(), I(1)), L(A("go-b"), L(), I(2))), L(A("go-c"))))
	case 16:
		// one closure reachable under different names from several packages; an
		// error raised through it is reported with a function name
		return g.sharedClosure()
	case 17:
		// the same format texts used with the right and with the wrong number of values
		txt := PickStr(g.r, []string{"{} / {}", "<{}>", "{} {} {} {}", "{0} {1}", "a{}b{}c", "{}"})
		xs := []*Node{A("format-string"), Str(txt)}
		for i := g.r.Range(0, 4); i > 0; i-- {
			xs = append(xs, g.scalar())
		}
		return L(xs...)
	case 15:
		// any exported function of the language or a library, applied to generated
		// arguments: most such calls are refused, and the refusal's message renders
		// the arguments
		cs := callables()
		if len(cs) == 0 {
			return g.scalar()
		}
		xs := []*Node{A(cs[g.r.Intn(len(cs))])}
		for i := g.r.Range(0, 3); i > 0; i-- {
			switch g.r.Intn(6) {
			case 0:
				xs = append(xs, g.mapExpr(0))
			case 1:
				xs = append(xs, g.closure())
			case 2:
				xs = append(xs, Call("vector", g.scalar(), g.mapExpr(0)))
			case 3:
				xs = append(xs, QS(PickStr(g.r, []string{"list", "vector", "k01", "bytes"})))
			default:
				xs = append(xs, g.scalar())
			}
		}
		return L(xs...)
	case 12:
		// expr lambdas with numbered placeholders (their formals are built at evaluation time)
		k := g.r.Range(1, 6)
		body := []*Node{A("list")}
		args := []*Node{}
		for i := k; i >= 1; i-- {
			body = append(body, A(fmt.Sprintf("%%%d", i)))
			args = append(args, g.scalar())
		}
		return L(append([]*Node{A("funcall"), Call("expr", L(body...))}, args...)...)
	case 13:
		// schema validation failing for several reasons at once
		ty := g.sym("ty")
		cons := PickNode(g.r,
			Call("s:no-other-keys", Str("k01"), Str("k02")),
			Call("s:has-key", Str("zz1"), A("s:int")),
			Call("s:no-other-keys"))
		g.out = append(g.out, Call("s:deftype", Str(ty), A("s:sorted-map"), cons, Call("s:has-key", Str("zz2"), A("s:string")), Call("s:has-key", Str("zz0"), A("s:int"))))
		return Call("s:validate", A(ty), g.mapExpr(0))
	case 14:
		// a large numeric reduction (any parallel or chunked fast path would show here)
		n := 16384 + g.r.Range(1, 3000)
		g.big = true
		return Call("list",
			Call("apply", A("+"), Call("map", QS("list"), L(A("lambda"), L(A("i")), Call("*", A("0.1"), A("i"))), Call("make-sequence", I(0), I(n)))),
			Call("apply", A("*"), Call("map", QS("list"), L(A("lambda"), L(A("i")), Call("+", A("1.0"), Call("/", A("1.0"), Call("+", A("i"), I(1))))), Call("make-sequence", I(0), I(n)))))
	case 7:
		// a call that the argument binder refuses for several reasons at once
		f := g.sym("kf")
		g.out = append(g.out, L(A("defun"), A(f), L(A("a"), A("&key"), A("k1"), A("k2")), Call("list", A("a"), A("k1"), A("k2"))))
		xs := []*Node{A(f), g.scalar()}
		for _, k := range []string{":zeta", ":alpha", ":mu", ":k1", ":omega", ":beta"}[:g.r.Range(2, 6)] {
			xs = append(xs, A(k), g.scalar())
		}
		return L(xs...)
	case 8:
		// documented user functions looked up through the help package; the
		// noise program defines other documented functions in other runtimes
		if g.r.Chance(1, 3) {
			// variables bound to native values (a host handle full of
			// pointers, library natives), looked up, printed and reported
			hv := g.sym("hv")
			g.out = append(g.out, Call("set", QS(hv), PickNode(g.r, Call("sim:handle"), Call("sim:handle"),
				Call("time:parse-duration", Str("3s")), Call("time:parse-rfc3339", Str("2020-01-02T03:04:05Z")), Call("list", Call("sim:handle"), I(1)))))
			return PickNode(g.r,
				Call("help:help", A(hv)),
				Call("progn", Call("export", QS(hv)), Call("help:help-package", QS("user"))),
				Call("format-string", Str("{} {}"), A(hv), Call("type", A(hv))),
				Call("to-string", A(hv)),
				Call("error", QS("with-handle"), A(hv)),
				Call("json:dump-string", A(hv)),
				Call("sorted-map", Str("h"), A(hv)),
				Call("car", A(hv)),
				Call("equal?", A(hv), A(hv)))
		}
		f := g.sym("hf")
		doc := fmt.Sprintf("Documentation text %d for %s.", g.r.Intn(1000), f)
		g.out = append(g.out, L(A("defun"), A(f), L(A("x"), A("y")), Str(doc), Call("list", A("x"), A("y"))))
		if g.r.Bool() {
			return Call("help:help", A(f))
		}
		return Call("progn", Call("export", QS(f)), Call("help:help-package", QS("user")))
	case 9:
		// decoding errors when several members of one object are bad
		n := g.r.Range(2, 5)
		var parts []string
		for i := 0; i < n; i++ {
			parts = append(parts, fmt.Sprintf("\"m%d\": %d99999999999999999999", g.r.Intn(90), g.r.Range(1, 9)))
		}
		return Call("json:load-string", Str("{"+strings.Join(parts, ", ")+"}"), A(":exact-integers"), A("true"))
	case 10:
		// misuse of library function values: the message names the function
		return PickNode(g.r,
			L(Call("s:gt", I(3)), I(1), I(2)),
			L(Call("s:in", Str("a"), Str("b")), I(1), I(2), I(3)),
			Call("s:validate", Call("s:len", I(2)), I(1), I(2)),
			L(Call("s:gte", I(3))))
	case 11:
		// other interpreter-detected errors whose message is assembled from several candidates
		return PickNode(g.r,
			Call("sorted-map", g.key(), g.scalar(), g.key()),
			Call("get", g.mapExpr(0), Call("list", I(1))),
			Call("assoc", g.mapExpr(0), Call("vector", I(1)), I(2)),
			Call("format-string", Str("{} {} {}"), g.scalar()),
			Call("json:dump-string", Call("sorted-map", Str("f"), g.closure(), Str("g"), A("car"))),
			Call("json:load-string", Str("{\"a\": tru, \"b\": nul}")))
	case 0:
		return g.observe(g.value(1))
	case 1:
		return L(A("handler-bind"), L(L(A("condition"), L(A("lambda"), L(A("c"), A("&rest"), A("d")), Call("list", A("c"), A("d"))))),
			Call("error", QS("with-data"), g.value(1), g.scalar()))
	case 2:
		// schema validators: anonymous validator names come from a process-wide counter
		ty := g.sym("ty")
		g.out = append(g.out, Call("s:deftype", Str(ty), A(PickStr(g.r, []string{"s:int", "s:string", "s:sorted-map"})), Call("s:gt", I(g.r.Intn(9)))))
		return Call("list", Call("format-string", Str("{} {}"), A(ty), Call("s:gt", I(2))),
			L(A("handler-bind"), L(L(A("condition"), L(A("lambda"), L(A("c"), A("&rest"), A("d")), Call("list", A("c"), A("d"))))),
				Call("s:validate", A(ty), g.scalar())))
	case 3:
		return Call("help:help-package-symbols", QS(PickStr(g.r, []string{"json", "time", "s"})))
	case 4:
		p := g.sym("pk")
		return Call("progn", Call("in-package", QS(p)), Call("export", QS("zb"), QS("za"), QS("zc")), Call("set", QS("za"), g.scalar()), Call("set", QS("zb"), g.closure()), Call("set", QS("zc"), g.mapExpr(0)), Call("in-package", QS("user")), Call("use-package", QS(p)), Call("list", A("za"), A("zb"), A("zc")))
	case 5:
		return Call("format-string", Str("{} {} {} {}"), A("car"), A("s:validate"), A("if"), A("defun"))
	default:
		return Call("stable-sort", A("string<"), Call("map", QS("list"), A("to-string"), Call("keys", g.mapExpr(0))))
	}
}

// sharedClosure: a closure created inside a function of one package (which never
// binds it), bound under two different names in two other packages, and then
// called with the wrong number of arguments: the error names the function.
func (g *detGen) sharedClosure() *Node {
	pa, pb, fac := g.sym("qa"), g.sym("qb"), g.sym("fac")
	g.out = append(g.out, Call("progn", Call("in-package", QS(fac)), L(A("defun"), A("mk"), L(), L(A("lambda"), L(A("a"), A("b")), A("a"))), Call("in-package", QS("user"))))
	return L(A("let"), L(L(A("shf"), L(A(fac+":mk")))),
		Call("in-package", QS(pa)), Call("set", QS("handler"), A("shf")),
		Call("in-package", QS(pb)), Call("set", QS("callback"), A("shf")),
		Call("in-package", QS("user")),
		PickNode(g.r, Call("funcall", A("shf")), L(A(pa+":handler")), L(A(pb+":callback"), I(1))))
}

func (g *detGen) program(n int) []*Node {
	var body []*Node
	for i := 0; i < n; i++ {
		f := g.form()
		if g.r.Chance(1, 3) {
			// the error as the HOST would see and log it: message (with the
			// name of the function that raised it) and trace
			body = append(body, Call("debug-print", Call("sim:errtext", f)))
			continue
		}
		// every form's value (or the error it raises) reaches the transcript
		body = append(body, Call("debug-print", L(A("handler-bind"),
			L(L(A("condition"), L(A("lambda"), L(A("c"), A("&rest"), A("d")), Call("list", QS("caught"), A("c"), A("d"))))), f)))
	}
	if g.r.Chance(1, 6) {
		// names that differ only in letter case, then listings of the package's symbols
		pre := []*Node{A("(set 'zcase 1)"), A("(set 'Zcase 2)"), A("(set 'ZCASE 3)"), A("(defun zCase () 1)"), A("(defmacro zcAse () 1)"), A("(export 'zcase 'ZCASE 'Zcase)")}
		body = append(pre, body...)
		body = append(body, A("(debug-print (help:help-package-symbols 'user true))"), A("(debug-print (help:help-package-symbols \"user\"))"),
			A("(debug-print (sim:errtext (zcasE)))"), A("(debug-print (sim:errtext (zcase 1)))"))
	}
	return append(g.out, body...)
}

func (e *detEngine) Gen(r *Rand, tier string) any {
	c := &DetCase{}
	g := &detGen{r: r.Fork()}
	c.Forms = g.program(r.Range(2, 7))
	// the program ends in an uncaught error in some cases (message + trace)
	switch r.Intn(6) {
	case 0, 1:
		c.Forms = append(c.Forms, Call("error", QS("final"), g.value(1)))
	case 2:
		// an uncaught error raised by the interpreter or a library itself: its
		// message names the function that refused the call
		c.Forms = append(c.Forms, PickNode(r,
			L(Call("s:gt", I(3)), I(1), I(2)),
			L(L(A("lambda"), L(A("a"), A("b")), A("a")), I(1)),
			Call("s:validate", Call("s:int", Call("s:gt", I(5))), I(1)),
			L(Call("compose", A("car"), A("cdr")), I(1), I(2)),
			Call("funcall", Call("s:in", Str("x")), Str("y"), Str("z")),
			Call("json:dump-string", g.closure()),
			A("(load-string \"(car 5)\" :name \"rel/dir/x.lisp\")"),
			A("(load-bytes (to-bytes \"(defun deep (n) (if (= n 0) (error 'bottom n) (+ 1 (deep (- n 1))))) (deep 3)\") :name \"./sub/y.lisp\")"),
			A("(load-string \"(progn (load-string \\\"(error 'inner 1)\\\" :name \\\"a/b/inner.lisp\\\"))\" :name \"outer.lisp\")")))
	case 3:
		fin := g.sharedClosure()
		c.Forms = append(append(g.out[len(g.out)-1:], c.Forms...), fin)
	}
	gn := &detGen{r: r.Fork()}
	c.Noise = gn.program(r.Range(1, 4))
	c.Knobs = Knobs{Stdlib: true, MaxSteps: hugeBudget}
	c.Knobs.TRO = PickStr(r, []string{"", "", "debugger", "profiler"})
	c.Chunks = []int{1, r.Range(2, 64)}
	if r.Chance(1, 12) {
		c.Pad = 128*1024 - r.Range(0, 40)
	} else if r.Chance(1, 5) {
		c.Pad = r.Range(1, 300)
	}
	for i := 0; i < r.Range(6, 30); i++ {
		c.Sched = append(c.Sched, r.Intn(3))
	}
	c.Burst = r.Range(1, 40)
	if g.big || gn.big {
		c.Burst = r.Range(2000, 6000)
		c.Chunks = []int{r.Range(16, 64)}
	}
	if r.Chance(1, 5) {
		// in-place work on literals, macro arguments and &rest lists, printed
		// before and after: with a parse shared by the repetitions nothing a
		// runtime does may reach the next runtime through the parsed program
		ig := &ilvGen{r: r.Fork(), kind: map[string]string{}}
		var body []*Node
		for i := r.Range(2, 5); i > 0; i-- {
			body = append(body, Call("debug-print", Call("ignore-errors", ig.mutate())))
			if len(ig.lits) > 0 {
				body = append(body, Call("debug-print", Call(PickStr(r, ig.lits))))
			}
		}
		pre := []*Node{Call("set", QS("ctr"), I(1))}
		if ig.needConst {
			pre = append(pre, L(A("defmacro"), A("constant"), L(A("x")), A("x")))
		}
		var litReads []*Node
		for _, l := range ig.lits {
			litReads = append(litReads, Call("debug-print", Call(l)))
		}
		c.Forms = append(append(append(append(pre, ig.defs...), litReads...), body...), c.Forms...)
		c.Shared = true
	} else if r.Chance(1, 4) {
		c.Shared = true
	}
	switch r.Intn(10) {
	case 0:
		c.CancelAt = int64(r.Range(1, 40))
	case 1:
		c.CancelAt = int64(r.Range(1, 3000))
		c.Deadline = r.Bool()
	case 2:
		c.Knobs.MaxSteps = int64(r.Range(3, 400))
	}
	if r.Chance(1, 8) {
		c.Clock = true
		c.CancelAt, c.Shared = 0, false
		c.Forms = append([]*Node{
			Call("set", QS("t0"), Call("time:utc-now")),
			Call("time:sleep", Call("time:parse-duration", Str(fmt.Sprintf("%dms", r.Range(1, 5000))))),
			Call("time:format-rfc3339-nano", Call("time:utc-now")),
			Call("time:duration-ns", Call("time:time-elapsed", A("t0"))),
		}, c.Forms...)
	}
	return c
}

// -------------------------------------------------------------------- run

type transcript struct {
	Result  string
	ErrText string // (*ErrorVal).Error(): what a Go embedder sees as the error message
	Stderr  string
	Trace   string
	Steps   int64
}

var detSharedSrc string // the source detOpts.prog was parsed from

var validatorName = regexp.MustCompile(`_validation_fun_[0-9]+`)

// normalised masks the one known process-history leak (known finding D5: the
// name of an anonymous schema validator comes from a process-wide counter) so
// that it is reported once, under its own oracle, and cannot hide or be
// confused with any other difference.
func (t transcript) normalised() transcript {
	n := t
	n.Result = validatorName.ReplaceAllString(t.Result, "_validation_fun_N")
	n.ErrText = validatorName.ReplaceAllString(t.ErrText, "_validation_fun_N")
	n.Stderr = validatorName.ReplaceAllString(t.Stderr, "_validation_fun_N")
	n.Trace = validatorName.ReplaceAllString(t.Trace, "_validation_fun_N")
	return n
}

func (t transcript) hash() Hash {
	t = t.normalised()
	return NewHash().Str(t.Result).Str(t.ErrText).Str(t.Stderr).Str(t.Trace).Int(t.Steps)
}

func mkTranscript(o Outcome) transcript {
	t := transcript{Result: o.Result(), Stderr: o.Stderr, Steps: o.Steps}
	if o.IsErr && o.Val != nil {
		var b bytes.Buffer
		_, _ = (*lisp.ErrorVal)(o.Val).WriteTrace(&b)
		t.Trace = b.String()
		t.ErrText = (*lisp.ErrorVal)(o.Val).Error()
	}
	return t
}

func (c *DetCase) source() string {
	src := Src(c.Forms)
	if c.Pad > 0 {
		src = ";" + strings.Repeat("p", c.Pad) + "\n" + src
	}
	return src
}

// detOpts are set by Run for the whole case (every repetition alike).
var detOpts struct {
	cancelAt int64
	deadline bool
	prog     lisp.Program // with hasProg: repetitions load this one parse
	hasProg  bool
}

func detRun(k Knobs, src string, chunk int) (transcript, error) {
	w, err := NewWorld(k)
	if err != nil {
		return transcript{}, err
	}
	var out Outcome
	if detOpts.cancelAt > 0 {
		w.Ctx.CancelAt = detOpts.cancelAt
		if detOpts.deadline {
			w.Ctx.Cause = context.DeadlineExceeded
		}
		switch {
		case chunk > 0:
			out = w.Call(func() *lisp.LVal {
				return w.Env.LoadContext(w.Ctx, "det", &chunkReader{src: []byte(src), chunk: chunk})
			})
		case detOpts.hasProg && src == detSharedSrc:
			out = w.Call(func() *lisp.LVal { return w.Env.LoadProgramContext(w.Ctx, detOpts.prog) })
		default:
			out = w.Call(func() *lisp.LVal { return w.Env.LoadStringContext(w.Ctx, "det", src) })
		}
		return mkTranscript(out), nil
	}
	if chunk == 0 && detOpts.hasProg && src == detSharedSrc {
		out = w.Call(func() *lisp.LVal { return w.Env.LoadProgram(detOpts.prog) })
		return mkTranscript(out), nil
	}
	if chunk > 0 {
		out = w.Call(func() *lisp.LVal { return w.Env.Load("det", &chunkReader{src: []byte(src), chunk: chunk}) })
	} else {
		out = w.Call(func() *lisp.LVal { return w.Env.LoadString("det", src) })
	}
	return mkTranscript(out), nil
}

func diffTranscript(a, b transcript) (string, string) {
	if a != b && a.normalised() == b.normalised() {
		for _, p := range [][2]string{{a.Result, b.Result}, {a.ErrText, b.ErrText}, {a.Stderr, b.Stderr}, {a.Trace, b.Trace}} {
			if p[0] != p[1] {
				return "validator-name-leak", fmt.Sprintf("%.300q vs %.300q", p[0], p[1])
			}
		}
	}
	a, b = a.normalised(), b.normalised()
	switch {
	case a.Result != b.Result:
		return "result-differs", fmt.Sprintf("%q vs %q", a.Result, b.Result)
	case a.ErrText != b.ErrText:
		return "error-message-differs", fmt.Sprintf("%q vs %q", a.ErrText, b.ErrText)
	case a.Stderr != b.Stderr:
		return "output-differs", fmt.Sprintf("%q vs %q", a.Stderr, b.Stderr)
	case a.Steps != b.Steps:
		return "steps-differ", fmt.Sprintf("%d vs %d", a.Steps, b.Steps)
	case a.Trace != b.Trace:
		return "trace-differs", fmt.Sprintf("%q vs %q", a.Trace, b.Trace)
	}
	return "", ""
}

func (e *detEngine) Run(ci any, st *Stats) *Violation {
	c := ci.(*DetCase)
	if c.Clock {
		if e.t == nil {
			return Violf("harness", "needs *testing.T")
		}
		var v *Violation
		var first transcript
		for rep := 0; rep < 2; rep++ {
			func() {
				defer func() {
					if r := recover(); r != nil {
						v = Violf("harness", "bubble panicked: %v", r)
					}
				}()
				synctest.Test(e.t, func(t *testing.T) {
					tr, err := detRun(c.Knobs, c.source(), 0)
					if err != nil {
						v = Violf("harness", "%v", err)
						return
					}
					st.Runs++
					if rep == 0 {
						first = tr
					} else if o, d := diffTranscript(first, tr); o != "" {
						v = Violf(o, "clock-reading program on the fake clock, repetition 0 vs %d: %s", rep, d)
					}
				})
			}()
			if v != nil {
				return v
			}
		}
		st.Inc("reach_clock_program_on_fake_clock")
		st.NoteHash(first.hash(), true)
		return e.expectCheck(c, first)
	}

	src := c.source()
	noise := Src(c.Noise)
	detOpts.cancelAt, detOpts.deadline, detOpts.hasProg, detSharedSrc = c.CancelAt, c.Deadline, false, ""
	defer func() { detOpts.cancelAt, detOpts.deadline, detOpts.hasProg, detSharedSrc = 0, false, false, "" }()
	ref, err := detRun(c.Knobs, src, 0)
	if err != nil {
		return Violf("harness", "%v", err)
	}
	st.Runs++
	st.SimSteps += ref.Steps
	if c.CancelAt > 0 && strings.Contains(ref.Result, "context-cancelled") {
		st.Inc("fault_cancel_fired")
	}
	if strings.Contains(ref.Result, "step-limit-exceeded") {
		st.Inc("fault_budget_fired")
	}
	if c.Shared {
		// from here on the repetitions in fresh runtimes load ONE parse
		if p, perr := lisp.ReadProgram(parser.NewReader(), "det", strings.NewReader(src)); perr == nil {
			detOpts.prog, detOpts.hasProg, detSharedSrc = p, true, src
			st.Inc("reach_repetitions_share_one_parse")
		}
	}
	var leak *Violation
	cmp := func(what string, tr transcript) *Violation {
		st.Runs++
		if o, d := diffTranscript(ref, tr); o != "" {
			v := Violf(o, "first run vs %s: %s", what, d)
			if o == "validator-name-leak" {
				// keep going: every other comparison still applies to the rest of the transcript
				if leak == nil {
					leak = v
				}
				return nil
			}
			return v
		}
		return nil
	}
	// reach probes on what the transcript contains
	if strings.Contains(ref.Result+ref.Stderr, "sorted-map") {
		st.Inc("reach_transcript_contains_map")
	}
	if strings.Contains(ref.Result+ref.Stderr, "lambda") {
		st.Inc("reach_transcript_contains_closure")
	}
	if ref.Trace != "" {
		st.Inc("reach_transcript_contains_error_trace")
	}
	if strings.Contains(ref.Stderr, "Stack Trace") || strings.Contains(ref.Stderr, "height") {
		st.Inc("reach_transcript_contains_stack_dump")
	}
	if c.Pad >= 100*1024 {
		st.Inc("reach_source_crosses_scanner_window")
	}

	// P1 plain repetition
	tr, err := detRun(c.Knobs, src, 0)
	if err != nil {
		return Violf("harness", "%v", err)
	}
	if v := cmp("a repetition in a fresh runtime", tr); v != nil {
		return v
	}
	// P2 preceding unrelated activity in the same process
	for i := 0; i < 2; i++ {
		if _, err := detRun(c.Knobs, noise, 0); err != nil {
			return Violf("harness", "%v", err)
		}
	}
	tr, _ = detRun(c.Knobs, src, 0)
	if v := cmp("a repetition after unrelated programs ran in other runtimes", tr); v != nil {
		return v
	}
	st.Inc("reach_preceding_activity")
	// P6 stream: chunked delivery
	for _, ch := range c.Chunks {
		tr, _ = detRun(c.Knobs, src, ch)
		if v := cmp(fmt.Sprintf("the source delivered in %d-byte reads", ch), tr); v != nil {
			return v
		}
	}
	st.Inc("reach_chunked_source")
	// P3/P4 interleaved with unrelated runtimes, heap churn and GC at yields
	results := make([]transcript, 3)
	b := &baton{}
	var wg sync.WaitGroup
	burst := c.Burst
	if burst < 1 {
		burst = 1
	}
	srcs := []string{src, noise, noise}
	for i := 0; i < 3; i++ {
		wg.Add(1)
		go func(i int) {
			defer wg.Done()
			me := int32(i + 1)
			k := c.Knobs
			k.UseSimCtx = true
			w, err := NewWorld(k)
			b.wait(me)
			if err == nil {
				if i == 0 && c.CancelAt > 0 {
					w.Ctx.CancelAt = c.CancelAt
					if c.Deadline {
						w.Ctx.Cause = context.DeadlineExceeded
					}
				}
				left := burst
				w.Ctx.OnPoll = func(*SimCtx) {
					left--
					if left <= 0 {
						left = burst
						b.give(0)
						b.wait(me)
					}
				}
				out := w.Call(func() *lisp.LVal { return w.Env.LoadStringContext(w.Ctx, "det", srcs[i]) })
				results[i] = mkTranscript(out)
			}
			b.finish(i)
			b.give(0)
		}(i)
	}
	events := 0
	for {
		alive := false
		for i := 0; i < 3; i++ {
			if !b.finished(i) {
				alive = true
			}
		}
		if !alive {
			break
		}
		pick := 0
		if len(c.Sched) > 0 {
			pick = c.Sched[events%len(c.Sched)] % 3
		}
		for b.finished(pick) {
			pick = (pick + 1) % 3
		}
		events++
		// heap perturbation so addresses differ between repetitions
		junk := make([][]byte, 0, 8)
		for j := 0; j < 8; j++ {
			junk = append(junk, make([]byte, 32+(events*37)%900))
		}
		_ = junk
		if events%17 == 0 {
			runtime.GC()
		}
		b.give(int32(pick + 1))
		b.wait(0)
	}
	wg.Wait()
	st.Add("scheduling_events", int64(events))
	st.Inc("reach_interleaved_repetition")
	if v := cmp("a repetition interleaved step by step with two unrelated runtimes under heap churn", results[0]); v != nil {
		return v
	}
	st.NoteHash(ref.hash(), true)
	if v := e.expectCheck(c, ref); v != nil {
		return v
	}
	return leak
}

// expectCheck compares with a transcript hash recorded by another process
// (cross-process replays written by the driver).
func (e *detEngine) expectCheck(c *DetCase, tr transcript) *Violation {
	lastTranscriptHash = strconv.FormatUint(uint64(tr.hash()), 16)
	if c.Expect != "" && c.Expect != lastTranscriptHash {
		return Violf("process-differs", "transcript hash %s in this process, %s recorded in another process (GOMAXPROCS=%d GOGC=%s); result here: %.200q",
			lastTranscriptHash, c.Expect, runtime.GOMAXPROCS(0), os.Getenv("GOGC"), tr.Result)
	}
	return nil
}

var lastTranscriptHash string

func (e *detEngine) CaseHash() string { return lastTranscriptHash }
func (e *detEngine) SetExpect(c any, hash string) {
	c.(*DetCase).Expect = hash
}

func (e *detEngine) Shrink(ci any) []any {
	c := ci.(*DetCase)
	if c.Expect != "" {
		return nil
	}
	var out []any
	if len(c.Noise) > 1 {
		d := *c
		d.Noise = c.Noise[:len(c.Noise)/2]
		out = append(out, &d)
	}
	if c.Pad > 0 {
		d := *c
		d.Pad = 0
		out = append(out, &d)
	}
	if c.Knobs.TRO != "" {
		d := *c
		d.Knobs.TRO = ""
		out = append(out, &d)
	}
	for _, f := range ShrinkForms(c.Forms, 300) {
		d := *c
		d.Forms = f
		out = append(out, &d)
	}
	return out
}
