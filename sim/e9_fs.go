package sim

import (
	"bytes"
	"encoding/json"
	"errors"
	"fmt"
	"io"
	"io/fs"
	"os"
	"os/exec"
	"path"
	"path/filepath"
	"regexp"
	"sort"
	"strings"
	"syscall"
	"time"
	"unsafe"

	"github.com/luthersystems/elps/lisp"
)

// Engine E9 `fs` — property C20: source loading cannot escape its configured
// root.  The disk is a real directory tree built from a layout spec (the
// interpreter's RelativeFileSystemLibrary runs unmodified against it) and an
// in-memory fs.FS with injectable faults for FSLibrary.

type FsNode struct {
	Path   string `json:"path"`             // relative to the base directory
	Kind   string `json:"kind"`             // dir | file | link
	Target string `json:"target,omitempty"` // link target; "@/x" = absolute path base/x
}

type FsAdv struct {
	Kind      string `json:"kind"` // repoint | remove-target | target-to-dir
	Link      string `json:"link,omitempty"`
	NewTarget string `json:"new_target,omitempty"`
}

type FsCase struct {
	Nodes    []FsNode `json:"nodes"`
	RootSpec string   `json:"root"` // "@/root", "@/root/", "@/rootlink", "root" (relative to cwd = base)
	Adv      *FsAdv   `json:"adversary,omitempty"`
	Picks    []uint64 `json:"picks,omitempty"` // drives the sampled long locations
	// pinned single load (set by the shrinker)
	OnlyLoc    string `json:"only_loc,omitempty"`
	OnlyLoader string `json:"only_loader,omitempty"`
	OnlyVia    string `json:"only_via,omitempty"`
	MemFS      bool   `json:"memfs,omitempty"`       // FSLibrary over the in-memory FS instead
	RootSwitch string `json:"root_switch,omitempty"` // after a first round of loads the root symlink is re-pointed to this directory
	Cwd        string `json:"cwd,omitempty"`         // working directory relative to base ("" = base); relative roots are spelled against it
	CwdVia     string `json:"cwd_via,omitempty"`     // the working directory is entered through this path (a directory link) and $PWD spells it that way
	// CLI: some loads also go through the repository's own command-line tool
	// (`elps run --root-dir <root> -e '(load-file "...")'`, built from the
	// tree under test and run as a subprocess against the same disk)
	CLI bool `json:"cli,omitempty"`

	hintLoc, hintLoader, hintVia string
}

type fsEngine struct{}

func init() { Register(fsEngine{}) }

func (fsEngine) Name() string     { return "fs" }
func (fsEngine) Property() string { return "C20" }
func (fsEngine) NumCases(tier string) int {
	if tier == "thorough" {
		return 40000
	}
	return 480
}
func (fsEngine) Decode(raw []byte) (any, error) {
	c := &FsCase{}
	return c, json.Unmarshal(raw, c)
}

// ---------------------------------------------------------------- generator

func (fsEngine) Gen(r *Rand, tier string) any {
	c := &FsCase{}
	c.MemFS = r.Chance(1, 6)
	add := func(p, k, t string) { c.Nodes = append(c.Nodes, FsNode{Path: p, Kind: k, Target: t}) }
	for _, d := range []string{"root", "root/a", "root/a/b", "outside", "outside/o", "root-x", "ROOT", "ROOT/A"} {
		add(d, "dir", "")
	}
	// ROOT/... differs from root/... only by letter case (a different directory on a case-sensitive file system)
	for _, f := range []string{"root/f0.lisp", "root/a/f1.lisp", "root/a/b/f2.lisp", "outside/s0.lisp", "outside/o/s1.lisp", "root-x/x0.lisp", "root/a/s0.lisp",
		"ROOT/f0.lisp", "ROOT/A/f1.lisp", "ROOT/u0.lisp"} {
		add(f, "file", "")
	}
	// files that load other files: a nested relative location resolves against
	// the directory of the file that contains the load-file call
	var chainNames []string
	for f := range chainFiles {
		chainNames = append(chainNames, f)
	}
	sort.Strings(chainNames) // never let map order reach a generated case
	for _, f := range chainNames {
		add(f, "file", "")
	}
	// outside names that are proper prefixes of the root's name
	add("roo", "file", "")
	add("ro", "dir", "")
	add("ro/f0.lisp", "file", "")
	add("root/f1.lisp", "file", "") // decoy: what a sibling load from root/a finds when resolved against the wrong directory
	add("outside/f2.lisp", "file", "")
	if !c.MemFS {
		add("root/lchain.lisp", "link", "a/chain.lisp")
		add("root/a/b/lup.lisp", "link", "../chain-up.lisp")
	}
	if !c.MemFS {
		add("rootlink", "link", "root")
		dirsIn := []string{"root", "root/a", "root/a/b"}
		dirsAll := append([]string{"outside", "outside/o", "root-x"}, dirsIn...)
		targetsRel := []string{"f0.lisp", "a", "a/b", "b", "..", "../outside", "../outside/s0.lisp", "../../outside/o", "../../outside/o/s1.lisp",
			"../root-x", "../root-x/x0.lisp", "../../root-x/x0.lisp", "../..", ".", "a/f1.lisp", "../f0.lisp", "nonexistent", "../../..", "../../../outside/s0.lisp"}
		targetsAbs := []string{"@/root", "@/root/a", "@/root/f0.lisp", "@/outside", "@/outside/s0.lisp", "@/outside/o", "@/root-x", "@/root-x/x0.lisp", "@/root/a/b/f2.lisp", "@/nonexistent"}
		nl := r.Range(2, 6)
		var links []string
		for i := 0; i < nl; i++ {
			var dir string
			if r.Chance(4, 5) {
				dir = PickStr(r, dirsIn)
			} else {
				dir = PickStr(r, dirsAll)
			}
			name := fmt.Sprintf("l%d", i)
			if r.Chance(1, 5) {
				name += ".lisp"
			}
			p := dir + "/" + name
			var t string
			switch r.Pick([]int{5, 4, 2, 1}) {
			case 0:
				t = PickStr(r, targetsRel)
			case 1:
				t = PickStr(r, targetsAbs)
			case 2:
				if len(links) > 0 { // chain to an earlier link
					t = "@/" + PickStr(r, links)
				} else {
					t = PickStr(r, targetsRel)
				}
			default:
				t = name // self loop
			}
			add(p, "link", t)
			links = append(links, p)
		}
		c.RootSpec = PickStr(r, []string{"@/root", "@/root", "@/root/", "@/root/", "@/rootlink", "@/rootlink/", "root", "root/", "@/root/a/..", "./root", "@/root//", "@/./root"})
		if r.Chance(1, 6) {
			// the root spelled relative to a working directory at or below it
			if r.Bool() {
				c.Cwd = "root"
				c.RootSpec = PickStr(r, []string{".", "./", "a/..", "../root", "./.", "a/b/../..", "../rootlink"})
			} else {
				c.Cwd = "root/a"
				c.RootSpec = PickStr(r, []string{"..", "../", "b/../..", "../../root", "../."})
			}
		}
		if r.Chance(1, 8) {
			// the process entered its working directory through a directory
			// link that lives inside the root and points outside it (a shell
			// `cd`): $PWD keeps the logical spelling, the kernel resolves
			// relative paths against the physical directory
			t := PickStr(r, []string{"../../outside/o", "@/outside/o", "@/outside", "../../root-x", "../../ro"})
			add("root/a/lwd", "link", t)
			c.CwdVia = "root/a/lwd"
			c.Cwd = strings.TrimPrefix(strings.TrimPrefix(t, "../../"), "@/")
			up := strings.Repeat("../", strings.Count(c.Cwd, "/")+1)
			c.RootSpec = PickStr(r, []string{"@/root", "@/root/", "@/rootlink", up + "root", up + "rootlink/", up + "root/a/.."})
		}
		if r.Chance(1, 5) {
			// a deployment switch: the root is a symlink that is re-pointed between two rounds of loads
			c.RootSpec = PickStr(r, []string{"@/rootlink", "@/rootlink/"})
			c.RootSwitch = "root-b"
			c.Adv = nil
			add("root-b", "dir", "")
			add("root-b/a", "dir", "")
			add("root-b/f0.lisp", "file", "")
			add("root-b/a/f1.lisp", "file", "")
			add("root-b/lb", "link", "../root/f0.lisp")
		}
		if r.Chance(1, 2) && len(links) > 0 {
			adv := &FsAdv{}
			switch r.Pick([]int{6, 2, 1, 3}) {
			case 3:
				// a link to an outside file appears, between resolution and read, under a name that did not exist
				adv.Kind = "plant-link"
				adv.NewTarget = PickStr(r, []string{"@/outside/s0.lisp", "@/root-x/x0.lisp", "@/outside/o/s1.lisp"})
			case 0:
				adv.Kind = "repoint"
				adv.Link = PickStr(r, links)
				adv.NewTarget = PickStr(r, []string{"@/outside", "@/outside/s0.lisp", "@/outside/o", "@/outside/o/s1.lisp", "@/root-x", "@/root-x/x0.lisp", "@/root/f0.lisp"})
			case 1:
				adv.Kind = "remove-target"
			default:
				adv.Kind = "target-to-dir"
			}
			c.Adv = adv
		}
	}
	if !c.MemFS && c.Adv == nil && c.RootSwitch == "" && r.Chance(1, 4) {
		c.CLI = true
	}
	for i := 0; i < 260; i++ {
		c.Picks = append(c.Picks, r.U64())
	}
	return c
}

// ------------------------------------------------- independent path resolver

type fsSpec struct {
	nodes map[string]FsNode
}

func newSpec(nodes []FsNode) *fsSpec {
	s := &fsSpec{nodes: map[string]FsNode{}}
	for _, n := range nodes {
		s.nodes[n.Path] = n
	}
	return s
}

// resolve walks comps (a path relative to the base directory, already split,
// "" entries ignored) component by component, following links as the kernel
// would.  It returns the real path relative to base, the kind of the final
// node, and ok=false when the path does not exist, loops, or leaves base.
func (s *fsSpec) resolve(comps []string) (real string, kind string, ok bool) {
	var cur []string // real directory components under base
	work := append([]string(nil), comps...)
	hops := 0
	for len(work) > 0 {
		c := work[0]
		work = work[1:]
		switch c {
		case "", ".":
			continue
		case "..":
			if len(cur) == 0 {
				return "", "", false // leaves the base directory
			}
			cur = cur[:len(cur)-1]
			continue
		}
		p := strings.Join(append(append([]string(nil), cur...), c), "/")
		n, exists := s.nodes[p]
		if !exists {
			return "", "", false
		}
		switch n.Kind {
		case "dir":
			cur = append(cur, c)
		case "file":
			if len(work) > 0 {
				// anything after a file (even ".") fails with ENOTDIR
				return "", "", false
			}
			return p, "file", true
		case "link":
			hops++
			if hops > 40 {
				return "", "", false
			}
			if strings.HasPrefix(n.Target, "@/") {
				cur = nil
				work = append(strings.Split(strings.TrimPrefix(n.Target, "@/"), "/"), work...)
			} else {
				work = append(strings.Split(n.Target, "/"), work...)
			}
		}
	}
	return strings.Join(cur, "/"), "dir", true
}

// rootReal is the real directory (relative to base) the configured root currently resolves to.
var rootReal = "root"

func insideRoot(real string) bool { return real == rootReal || strings.HasPrefix(real, rootReal+"/") }

// ------------------------------------------------------------------- disk

type fsDisk struct {
	base    string
	spec    *fsSpec
	content map[string]string // content -> node path
}

// chainFiles: file -> forms evaluated after the file's own mark.
var chainFiles = map[string]string{
	"root/a/chain.lisp":     `(load-file "b/f2.lisp")`,
	"root/a/chain-up.lisp":  `(load-file "../f0.lisp")`,
	"root/a/chain-out.lisp": `(load-file "../../outside/s0.lisp")`,
	"root/a/chain2.lisp":    `(load-file "chain.lisp")`,
	"root/a/defs.lisp":      `(defun load-sibling () (load-file "f1.lisp"))`,
	"root/call.lisp":        `(load-file "a/defs.lisp") (load-sibling)`,
	"root/a/b/deep.lisp":    `(load-file "../../../outside/f2.lisp")`,
	// several loads issued by ONE top-level form through a builtin that calls
	// load-file itself: each resolves against this file's directory, whatever
	// the previous load evaluated
	"root/a/chain-map.lisp":  `(map 'list load-file '("b/f2.lisp" "f1.lisp"))`,
	"root/a/chain-fold.lisp": `(foldl (lambda (acc l) (load-file l)) () '("b/f2.lisp" "f1.lisp" "../f0.lisp"))`,
	"root/chain-app.lisp":    `(list (apply load-file '("a/f1.lisp")) (funcall load-file "f0.lisp"))`,
	// a load-file call whose form is built at run time (no parser location)
	"root/a/chain-eval.lisp": `(eval (list load-file "f1.lisp"))`,
}

type chainStep struct{ loc, from string }

// chainSteps: the loads a file performs when evaluated, in order (from = the
// file whose text contains the load-file call, "" = the file itself).
var chainSteps = map[string][]chainStep{
	"root/a/chain.lisp":      {{"b/f2.lisp", ""}},
	"root/a/chain-up.lisp":   {{"../f0.lisp", ""}},
	"root/a/chain-out.lisp":  {{"../../outside/s0.lisp", ""}},
	"root/a/chain2.lisp":     {{"chain.lisp", ""}},
	"root/call.lisp":         {{"a/defs.lisp", ""}, {"f1.lisp", "root/a/defs.lisp"}},
	"root/a/b/deep.lisp":     {{"../../../outside/f2.lisp", ""}},
	"root/a/chain-map.lisp":  {{"b/f2.lisp", ""}, {"f1.lisp", ""}},
	"root/a/chain-fold.lisp": {{"b/f2.lisp", ""}, {"f1.lisp", ""}, {"../f0.lisp", ""}},
	"root/chain-app.lisp":    {{"a/f1.lisp", ""}, {"f0.lisp", ""}},
	"root/a/chain-eval.lisp": {{"f1.lisp", ""}},
}

// chainSim lists the files evaluated when entry is loaded, given how a nested
// location resolves, and whether the load ends in an error.
func chainSim(entry string, resolve func(from, loc string) (string, bool)) ([]string, bool) {
	seq := []string{entry}
	for _, st := range chainSteps[entry] {
		from := st.from
		if from == "" {
			from = entry
		}
		target, ok := resolve(from, st.loc)
		if !ok {
			return seq, true
		}
		sub, fail := chainSim(target, resolve)
		seq = append(seq, sub...)
		if fail {
			return seq, true
		}
	}
	return seq, false
}

func fileContent(p string) string {
	// the debug-print line is how a process that has no sim package (the
	// command-line tool) shows which files it evaluated
	return fmt.Sprintf(";; file %s\n(debug-print %s)\n(sim:mark %s)\n%s\n", p, LispString("zz-mark:"+p), LispString(p), chainFiles[p])
}

func (d *fsDisk) abs(t string) string {
	if strings.HasPrefix(t, "@/") {
		return filepath.Join(d.base, strings.TrimPrefix(t, "@/"))
	}
	return t
}

func buildDisk(nodes []FsNode) (*fsDisk, error) {
	base, err := os.MkdirTemp("", "verif-fs-")
	if err != nil {
		return nil, err
	}
	// the temp dir itself may sit behind a link (e.g. /tmp -> /private/tmp)
	if rb, err := filepath.EvalSymlinks(base); err == nil {
		base = rb
	}
	d := &fsDisk{base: base, spec: newSpec(nodes), content: map[string]string{}}
	for _, n := range nodes {
		// every node's parent must be a listed directory, otherwise the disk
		// and the spec would disagree about what exists
		if dir := path.Dir(n.Path); dir != "." {
			if p, ok := d.spec.nodes[dir]; !ok || p.Kind != "dir" {
				return d, fmt.Errorf("node %s has no listed parent directory", n.Path)
			}
		}
	}
	for _, n := range nodes {
		if n.Kind == "dir" {
			if err := os.MkdirAll(filepath.Join(base, n.Path), 0o755); err != nil {
				return d, err
			}
		}
	}
	for _, n := range nodes {
		full := filepath.Join(base, n.Path)
		switch n.Kind {
		case "file":
			c := fileContent(n.Path)
			d.content[c] = n.Path
			if err := os.WriteFile(full, []byte(c), 0o644); err != nil {
				return d, err
			}
		case "link":
			if err := os.Symlink(d.abs(n.Target), full); err != nil {
				return d, err
			}
		}
	}
	return d, nil
}

func (d *fsDisk) remove() { _ = os.RemoveAll(d.base) }

// ----------------------------------------------------------------- run

type fsLoad struct {
	via    string // LoadSource | load-file
	loader string // real path (relative to base) of the loading file, "" = none
	loc    string
}

func (c *FsCase) locations(d *fsDisk) []fsLoad {
	if c.OnlyLoc != "" || c.OnlyVia != "" {
		return []fsLoad{{via: c.OnlyVia, loader: c.OnlyLoader, loc: c.OnlyLoc}}
	}
	// alphabet: every name that occurs in the layout, plus . and ..
	seen := map[string]bool{}
	var names []string
	for _, n := range c.Nodes {
		for _, comp := range strings.Split(n.Path, "/") {
			if !seen[comp] {
				seen[comp] = true
				names = append(names, comp)
			}
		}
	}
	names = append(names, "ghost.lisp", "ghost")
	sort.Strings(names)
	alpha := append([]string{".", ".."}, names...)
	loaders := []string{"", "root/f0.lisp", "root/a/f1.lisp", "root/a/b/f2.lisp"}
	// loading-file contexts spelled through a directory symlink (a host may
	// hand the library any location, e.g. through LoadLocation)
	for _, n := range c.Nodes {
		if n.Kind == "link" && strings.HasPrefix(n.Path, "root/") {
			if _, k, ok := d.spec.resolve(strings.Split(n.Path, "/")); ok && k == "dir" {
				loaders = append(loaders, n.Path+"/boot.lisp")
			}
		}
	}
	var locs []string
	for _, a := range alpha {
		locs = append(locs, a)
		for _, b := range alpha {
			locs = append(locs, a+"/"+b)
		}
	}
	// sampled 3- and 4-component locations, doubled separators, trailing slash
	pk := 0
	pick := func(n int) int {
		v := int(c.Picks[pk%len(c.Picks)] % uint64(n))
		pk++
		return v
	}
	for i := 0; i < 120 && len(c.Picks) > 0; i++ {
		k := 3 + pick(2)
		parts := make([]string, k)
		for j := range parts {
			parts[j] = alpha[pick(len(alpha))]
		}
		sep := "/"
		if pick(12) == 0 {
			sep = "//"
		}
		l := strings.Join(parts, sep)
		if pick(15) == 0 {
			l += "/"
		}
		locs = append(locs, l)
	}
	var out []fsLoad
	for _, ld := range loaders {
		for _, l := range locs {
			out = append(out, fsLoad{via: "LoadSource", loader: ld, loc: l})
		}
	}
	// absolute locations: every node path, through every spelling of the base
	for _, n := range c.Nodes {
		for _, ld := range []string{"", "root/a/f1.lisp"} {
			out = append(out, fsLoad{via: "LoadSource", loader: ld, loc: filepath.Join(d.base, n.Path)})
			out = append(out, fsLoad{via: "LoadSource", loader: ld, loc: d.base + "/root/../" + n.Path})
			out = append(out, fsLoad{via: "LoadSource", loader: ld, loc: d.base + "/rootlink/../" + n.Path})
		}
	}
	for _, extra := range []string{"/etc/hostname", "../../../../../../../../etc/hostname", d.base + "/root-x/x0.lisp", d.base + "/root/../root-x/x0.lisp"} {
		out = append(out, fsLoad{via: "LoadSource", loader: "root/f0.lisp", loc: extra})
	}
	// files that load other files, entered directly and through links
	for _, l := range []string{"a/chain.lisp", "a/chain-up.lisp", "a/chain-out.lisp", "a/chain2.lisp", "call.lisp", "a/b/deep.lisp", "lchain.lisp", "a/b/lup.lisp",
		"a/../a/chain.lisp", "./call.lisp", "a/chain-map.lisp", "a/chain-fold.lisp", "chain-app.lisp"} {
		out = append(out, fsLoad{via: "load-file", loader: "root/f0.lisp", loc: l})
	}
	out = append(out, fsLoad{via: "load-file", loader: "root/a/f1.lisp", loc: "chain.lisp"}, fsLoad{via: "load-file", loader: "root/a/f1.lisp", loc: "../call.lisp"},
		fsLoad{via: "load-file", loader: "root/f0.lisp", loc: d.base + "/root/a/chain2.lisp"})
	// relative loads issued by code that was read from a STRING carrying a
	// label that looks like a path
	for i, label := range []string{"@/root/a/inline.lisp", "root/a/inline.lisp", "a/inline.lisp", "@/outside/inline.lisp", "outside/o/x.lisp", "@/root/a/b/z.lisp", "../outside/y.lisp", "@/root/inline.lisp"} {
		for j, l := range []string{"f1.lisp", "f0.lisp", "s0.lisp", "f2.lisp", "../f0.lisp", "a/f1.lisp", "b/f2.lisp", "x0.lisp", "../outside/s0.lisp", "s1.lisp", "root/f0.lisp"} {
			out = append(out, fsLoad{via: fmt.Sprintf("named-string-%d", (i+j)%3), loader: label, loc: l})
		}
	}
	// end-to-end loads through (load-file ...) evaluated from a loader file
	nBefore := len(out) - 88
	for i := 0; i < 60 && len(c.Picks) > 0; i++ {
		l := out[pick(nBefore)]
		if l.loader == "" || strings.HasSuffix(l.loader, "/boot.lisp") {
			l.loader = "root/a/f1.lisp"
		}
		l.via = "load-file"
		out = append(out, l)
	}
	if len(c.Picks) > 0 && c.Picks[0]%6 == 0 && !c.CLI {
		// last of all, so that nothing else of the case goes unchecked
		// (known finding D13: the run-time-built call resolves against the working directory)
		out = append(out, fsLoad{via: "load-file", loader: "root/f0.lisp", loc: "a/chain-eval.lisp"})
	}
	return out
}

func (fsEngine) Run(ci any, st *Stats) *Violation {
	c := ci.(*FsCase)
	c.hintLoc, c.hintLoader, c.hintVia = "", "", ""
	if c.MemFS {
		return runMemFS(c, st)
	}
	d, err := buildDisk(c.Nodes)
	if d != nil {
		defer d.remove()
	}
	if err != nil {
		return nil // an unbuildable (shrunk) layout is not a case
	}
	cwd, _ := os.Getwd()
	enter := c.Cwd
	if c.CwdVia != "" {
		if real, kind, ok := d.spec.resolve(strings.Split(c.CwdVia, "/")); !ok || kind != "dir" || real != c.Cwd {
			return nil // a shrunk layout whose link no longer leads to the working directory is not a case
		}
		enter = c.CwdVia
	}
	if err := os.Chdir(filepath.Join(d.base, enter)); err != nil {
		return nil // a shrunk layout without the working directory is not a case
	}
	oldPWD, hadPWD := os.LookupEnv("PWD")
	if c.CwdVia != "" {
		_ = os.Setenv("PWD", filepath.Join(d.base, enter))
		st.Inc("config_working_directory_entered_through_link")
	}
	defer func() {
		_ = os.Chdir(cwd)
		if hadPWD {
			_ = os.Setenv("PWD", oldPWD)
		} else {
			_ = os.Unsetenv("PWD")
		}
	}()

	// the root exactly as spelled (trailing separators, "..", "./" are not cleaned away)
	rootDir := c.RootSpec
	if strings.HasPrefix(rootDir, "@/") {
		rootDir = d.base + "/" + strings.TrimPrefix(rootDir, "@/")
	}
	lib := &lisp.RelativeFileSystemLibrary{RootDir: rootDir}
	rootComps := func() []string {
		if strings.HasPrefix(c.RootSpec, "@/") {
			return strings.Split(strings.TrimPrefix(c.RootSpec, "@/"), "/")
		}
		return append(strings.Split(c.Cwd, "/"), strings.Split(c.RootSpec, "/")...)
	}
	if _, _, ok := d.spec.resolve(rootComps()); !ok {
		return nil
	}
	h := NewHash().Str(c.RootSpec).Str(c.Cwd).Str(c.CwdVia)
	nontrivial := false
	if c.Cwd != "" {
		st.Inc("config_root_relative_to_working_directory")
	}

	// adversary step at the guarded hook between resolution and read
	var undo []func()
	advFired := false
	setVerifHook(func(point, detail string) {
		if point != "library.resolved" || c.Adv == nil {
			return
		}
		switch c.Adv.Kind {
		case "plant-link":
			if _, err := os.Lstat(detail); err == nil {
				return // the name exists: nothing to plant
			}
			if os.Symlink(d.abs(c.Adv.NewTarget), detail) == nil {
				advFired = true
				undo = append(undo, func() { _ = os.Remove(detail) })
			}
		case "repoint":
			full := filepath.Join(d.base, c.Adv.Link)
			old, err := os.Readlink(full)
			if err != nil {
				return
			}
			if os.Remove(full) == nil && os.Symlink(d.abs(c.Adv.NewTarget), full) == nil {
				advFired = true
				undo = append(undo, func() { _ = os.Remove(full); _ = os.Symlink(old, full) })
			}
		case "remove-target":
			data, err := os.ReadFile(detail)
			if err != nil {
				return
			}
			if os.Remove(detail) == nil {
				advFired = true
				undo = append(undo, func() { _ = os.WriteFile(detail, data, 0o644) })
			}
		case "target-to-dir":
			data, err := os.ReadFile(detail)
			if err != nil {
				return
			}
			if os.Remove(detail) == nil && os.Mkdir(detail, 0o755) == nil {
				advFired = true
				undo = append(undo, func() { _ = os.Remove(detail); _ = os.WriteFile(detail, data, 0o644) })
			}
		}
	})
	defer setVerifHook(nil)
	if c.Adv != nil && !hookAvailable {
		return Violf("harness", "adversary cases need a simulator built with -tags verif")
	}

	watch := newDiskWatch(d, c.Nodes)
	defer watch.close()
	if watch == nil {
		st.Inc("inotify_unavailable")
	}

	resolveRoot := func() bool {
		real, kind, ok := d.spec.resolve(rootComps())
		if !ok || kind != "dir" {
			return false
		}
		rootReal = real
		return true
	}
	defer func() { rootReal = "root" }()
	if !resolveRoot() {
		return nil
	}
	loads := c.locations(d)
	if c.RootSwitch != "" && c.OnlyLoc == "" {
		// round 1 under the old target, then the switch, then every load again
		loads = append(append(append([]fsLoad(nil), loads...), fsLoad{via: "switch"}), loads...)
		for _, extra := range []string{"f0.lisp", "a/f1.lisp", "lb"} {
			loads = append(loads, fsLoad{via: "LoadSource", loader: "", loc: d.base + "/root-b/" + extra},
				fsLoad{via: "LoadSource", loader: "root-b/f0.lisp", loc: extra}, fsLoad{via: "LoadSource", loader: "", loc: d.base + "/rootlink/" + extra})
		}
	} else if c.RootSwitch != "" {
		loads = append([]fsLoad{{via: "LoadSource", loader: "", loc: d.base + "/root/f0.lisp"}, {via: "switch"}}, loads...)
	}
	for _, ld := range loads {
		if ld.via == "cli" {
			continue
		}
		if ld.via == "switch" {
			link := filepath.Join(d.base, "rootlink")
			if os.Remove(link) != nil || os.Symlink(c.RootSwitch, link) != nil {
				return Violf("harness", "cannot re-point the root link")
			}
			n := d.spec.nodes["rootlink"]
			n.Target = c.RootSwitch
			d.spec.nodes["rootlink"] = n
			if !resolveRoot() {
				return nil
			}
			st.Inc("fault_root_link_repointed_between_loads")
			nontrivial = true
			continue
		}
		undo = undo[:0]
		advFired = false
		watch.drain()
		fail := func(oracle, format string, a ...any) *Violation {
			c.hintLoc, c.hintLoader, c.hintVia = strings.ReplaceAll(ld.loc, d.base, "@"), ld.loader, ld.via
			msg := strings.ReplaceAll(fmt.Sprintf(format, a...), d.base, "@")
			rootText := c.RootSpec
			if c.Cwd != "" {
				rootText += " (working directory @/" + c.Cwd + ")"
			}
			if c.CwdVia != "" {
				rootText += " (entered as @/" + c.CwdVia + ")"
			}
			return Violf(oracle, "root %s, loading file %q, location %q via %s: %s", rootText, ld.loader, strings.ReplaceAll(ld.loc, d.base, "@"), ld.via, msg)
		}
		loc := strings.ReplaceAll(ld.loc, "@", d.base)
		st.Runs++
		var served []string // contents served / evaluated
		var lerr error
		var evaluated []string
		namedString := false
		switch ld.via {
		case "named-string-0", "named-string-1", "named-string-2":
			// code evaluated from a string has no loading file, whatever its
			// label says: the label must not steer a relative load
			namedString = true
			variant := int(ld.via[len(ld.via)-1] - '0')
			label := strings.ReplaceAll(ld.loader, "@", d.base)
			base, baseErr, gp0, err := namedStringRun(lib, "", loc, variant)
			if err != nil {
				return Violf("harness", "%v", err)
			}
			got, gotErr, gp1, err := namedStringRun(lib, label, loc, variant)
			if err != nil {
				return Violf("harness", "%v", err)
			}
			st.Runs++
			if gp0+gp1 != "" {
				return fail("go-panic-escaped", "%s%s", gp0, gp1)
			}
			if baseErr != gotErr || strings.Join(base, " ") != strings.Join(got, " ") {
				return fail("string-label-steers-load", "a source string labelled %q evaluated %v (error: %v); the same string under its default name evaluated %v (error: %v)", ld.loader, got, gotErr, base, baseErr)
			}
			evaluated = got
			if gotErr {
				lerr = errors.New("load failed")
			}
		case "load-file":
			w, err := NewWorld(Knobs{})
			if err != nil {
				return Violf("harness", "%v", err)
			}
			w.RT.Library = lib
			loaderFull := filepath.Join(d.base, filepath.Dir(ld.loader), "zz-loader.lisp")
			body := fmt.Sprintf("(sim:mark \"loader\")\n(load-file %s)\n", LispString(loc))
			if err := os.WriteFile(loaderFull, []byte(body), 0o644); err != nil {
				return Violf("harness", "%v", err)
			}
			out := w.Call(func() *lisp.LVal { return w.Env.LoadFile(loaderFull) })
			_ = os.Remove(loaderFull)
			if out.GoPanic != "" {
				return fail("go-panic-escaped", "%s", out.GoPanic)
			}
			if out.IsErr {
				lerr = errors.New(out.Msg)
			}
			for _, m := range w.Marks {
				m = strings.Trim(m, "\"")
				if m != "loader" {
					evaluated = append(evaluated, m)
				}
			}
			st.Inc("loads_via_load_file")
		default:
			ctxLoc := ""
			if ld.loader != "" {
				ctxLoc = filepath.Join(d.base, ld.loader)
			}
			_, trueloc, data, err := lib.LoadSource(lisp.NewSourceContext(filepath.Base(ctxLoc), ctxLoc), loc)
			lerr = err
			if err != nil && len(data) > 0 {
				for _, u := range undo {
					u()
				}
				return fail("data-with-error", "an error was returned together with %d bytes of data", len(data))
			}
			if err == nil {
				served = append(served, string(data))
				_ = trueloc
			}
		}
		// nothing outside the root is opened or read, served or refused
		// (checked when no adversary is configured: its own moves read files)
		if c.Adv == nil {
			for _, p := range watch.drain() {
				if n, ok := d.spec.nodes[p]; ok && n.Kind == "file" && !insideRoot(p) {
					for _, u := range undo {
						u()
					}
					return fail("outside-file-read", "the file %q, whose real path is outside the root, was opened or read (load error: %v)", p, lerr)
				}
			}
		}
		for _, u := range undo {
			u()
		}
		if namedString {
			st.Inc("loads_from_named_strings")
			for _, node := range evaluated {
				if !insideRoot(node) {
					return fail("evaluated-outside-root", "evaluated the file %q, whose real path is outside the root", node)
				}
			}
			h = h.Str(strings.Join(evaluated, " "))
			continue
		}
		if advFired {
			st.Inc("fault_adversary_" + c.Adv.Kind + "_fired")
			nontrivial = true
		}

		// safety: whatever was served or evaluated is a whole file inside the root
		for _, s := range served {
			node, known := d.content[s]
			if !known {
				return fail("served-unknown-bytes", "%d bytes served that are not the content of any file of the layout: %.60q", len(s), s)
			}
			if !insideRoot(node) {
				return fail("served-outside-root", "served the content of %q, whose real path is outside the root", node)
			}
			evaluated = append(evaluated, node)
		}
		for _, node := range evaluated {
			if !insideRoot(node) {
				return fail("evaluated-outside-root", "evaluated the file %q, whose real path is outside the root", node)
			}
		}

		// which inside file: relative locations resolve against the loading file's directory
		isAbs := filepath.IsAbs(loc)
		var comps []string
		if isAbs {
			if strings.HasPrefix(loc, d.base+"/") {
				comps = strings.Split(strings.TrimPrefix(loc, d.base+"/"), "/")
			} else {
				comps = nil
			}
		} else {
			comps = append(strings.Split(filepath.Dir(ld.loader), "/"), strings.Split(loc, "/")...)
		}
		var expect string
		expectKnown := false
		if comps != nil && (isAbs || ld.loader != "") {
			physReal, physKind, physOK := d.spec.resolve(comps)
			lexReal, lexKind, lexOK := d.spec.resolve(strings.Split(path.Clean(strings.Join(comps, "/")), "/"))
			if physOK == lexOK && physReal == lexReal && physKind == lexKind {
				expectKnown = true
				if physOK && physKind == "file" {
					expect = physReal
				}
			} else {
				st.Inc("reach_lexical_and_physical_parent_differ")
			}
			if physOK && !insideRoot(physReal) {
				st.Inc("reach_location_resolves_outside_root")
				nontrivial = true
			}
		}
		got := ""
		if len(evaluated) > 0 {
			got = evaluated[0]
		}
		if lerr == nil && got != "" {
			st.Inc("served_inside_root")
			if expectKnown && !advFired && got != expect {
				return fail("wrong-file-served", "served %q; resolving the location against the loading file's directory names %q", got, expect)
			}
			if expectKnown && !advFired && ld.via == "load-file" {
				// files that load files: each nested relative location resolves
				// against the directory of the file containing the call
				want, wfail := chainSim(expect, func(from, l string) (string, bool) {
					real, kind, ok := d.spec.resolve(append(strings.Split(path.Dir(from), "/"), strings.Split(l, "/")...))
					return real, ok && kind == "file" && insideRoot(real)
				})
				if len(want) > 1 || wfail {
					st.Inc("reach_nested_load_from_loaded_file")
					nontrivial = true
				}
				if wfail || strings.Join(want, " ") != strings.Join(evaluated, " ") {
					return fail("nested-load-differs", "files evaluated, in order: %v; resolving each nested location against the directory of the file that contains the call gives %v (fails: %v)", evaluated, want, wfail)
				}
			}
		} else {
			if lerr != nil && got != "" && got == expect && expectKnown && !advFired && ld.via == "load-file" {
				// the entry file was evaluated and one of ITS loads failed
				want, wfail := chainSim(expect, func(from, l string) (string, bool) {
					real, kind, ok := d.spec.resolve(append(strings.Split(path.Dir(from), "/"), strings.Split(l, "/")...))
					return real, ok && kind == "file" && insideRoot(real)
				})
				if !wfail || strings.Join(want, " ") != strings.Join(evaluated, " ") {
					return fail("nested-load-differs", "files evaluated before the load failed (%v): %v; resolving each nested location against the directory of the file that contains the call gives %v (fails: %v)", lerr, evaluated, want, wfail)
				}
				st.Inc("reach_nested_load_refused_outside_root")
			}
			st.Inc("refused_or_failed")
			if expectKnown && expect != "" && insideRoot(expect) && !advFired {
				st.Inc("over_refusal_of_inside_file")

			}
		}
		if strings.Contains(ld.loc, "..") {
			st.Inc("reach_dotdot_location")
		}
		if strings.Contains(ld.loc, "root-x") {
			st.Inc("reach_sibling_prefix_directory")
		}
		if strings.Contains(ld.loc, "ROOT") {
			st.Inc("reach_case_variant_of_root")
		}
		h = h.Str(got)
		if lerr != nil {
			h = h.Str("err")
		}
	}
	// the repository's own command-line tool against the same disk
	if bin := os.Getenv("VERIF_ELPS_BIN"); bin != "" && (c.CLI || c.OnlyVia == "cli") && c.Adv == nil {
		var locs []string
		if c.OnlyVia == "cli" {
			locs = []string{c.OnlyLoc}
		} else if c.OnlyLoc == "" {
			// every entry of the layout under the root's real directory, spelled
			// relative to the root: links first
			var links, others []string
			for _, n := range c.Nodes {
				if !strings.HasPrefix(n.Path, rootReal+"/") {
					continue
				}
				rel := strings.TrimPrefix(n.Path, rootReal+"/")
				if n.Kind == "link" {
					links = append(links, rel)
				} else if n.Kind == "file" {
					others = append(others, rel)
				}
			}
			sort.Strings(links)
			sort.Strings(others)
			locs = append(links, "../outside/s0.lisp", "a/../../outside/s0.lisp", d.base+"/outside/s0.lisp")
			for i := 0; i < 3 && i < len(others); i++ {
				locs = append(locs, others[int(c.Picks[i%len(c.Picks)]%uint64(len(others)))])
			}
			if len(locs) > 14 {
				locs = locs[:14]
			}
		}
		for _, loc := range locs {
			cmd := exec.Command(bin, "run", "--root-dir", rootDir, "-e", fmt.Sprintf("(load-file %s)", LispString(loc)))
			var outb bytes.Buffer
			cmd.Stdout, cmd.Stderr = &outb, &outb
			if err := cmd.Start(); err != nil {
				return Violf("harness", "cannot start %s: %v", bin, err)
			}
			done := make(chan error, 1)
			go func() { done <- cmd.Wait() }()
			select {
			case <-done:
			case <-time.After(60 * time.Second):
				_ = cmd.Process.Kill()
				return Violf("harness", "elps run did not finish within 60 s")
			}
			st.Runs++
			st.Inc("loads_via_command_line_tool")
			text := outb.String()
			fail := func(oracle, format string, a ...any) *Violation {
				c.hintLoc, c.hintLoader, c.hintVia = strings.ReplaceAll(loc, d.base, "@"), "", "cli"
				return Violf(oracle, "elps run --root-dir %s -e (load-file %q): %s", c.RootSpec, strings.ReplaceAll(loc, d.base, "@"), strings.ReplaceAll(fmt.Sprintf(format, a...), d.base, "@"))
			}
			if strings.Contains(text, "goroutine ") && strings.Contains(text, "panic:") {
				return fail("go-panic-escaped", "%.300s", text)
			}
			var marks []string
			for _, m := range cliMark.FindAllStringSubmatch(text, -1) {
				marks = append(marks, m[1])
			}
			for _, node := range marks {
				if !insideRoot(node) {
					return fail("evaluated-outside-root", "the tool evaluated the file %q, whose real path is outside the root", node)
				}
			}
			if len(marks) > 0 {
				st.Inc("served_inside_root")
			}
			h = h.Str("cli").Str(strings.Join(marks, " "))
			nontrivial = true
		}
	}
	st.NoteHash(h, nontrivial)
	return nil
}

var cliMark = regexp.MustCompile(`zz-mark:([^"\\\s]+)`)

// ------------------------------------------------------------- in-memory FS

type memFS struct {
	files     map[string]string
	asked     []string
	openN     int
	failOpen  int // fail the n-th Open
	readErrAt int // read error after this many bytes (0 = none)
	chunk     int // short reads of this size
	fired     []string
}

type memFile struct {
	fs   *memFS
	name string
	data []byte
	off  int
}

type memInfo struct {
	name string
	size int64
}

func (i memInfo) Name() string       { return i.name }
func (i memInfo) Size() int64        { return i.size }
func (i memInfo) Mode() fs.FileMode  { return 0o444 }
func (i memInfo) ModTime() time.Time { return time.Time{} }
func (i memInfo) IsDir() bool        { return false }
func (i memInfo) Sys() any           { return nil }

func (m *memFS) Open(name string) (fs.File, error) {
	m.asked = append(m.asked, name)
	m.openN++
	if !fs.ValidPath(name) {
		return nil, &fs.PathError{Op: "open", Path: name, Err: fs.ErrInvalid}
	}
	if m.failOpen > 0 && m.openN == m.failOpen {
		m.fired = append(m.fired, "open-error")
		return nil, &fs.PathError{Op: "open", Path: name, Err: errors.New("sim: injected open error")}
	}
	data, ok := m.files[name]
	if !ok {
		return nil, &fs.PathError{Op: "open", Path: name, Err: fs.ErrNotExist}
	}
	return &memFile{fs: m, name: name, data: []byte(data)}, nil
}

func (f *memFile) Stat() (fs.FileInfo, error) {
	return memInfo{name: path.Base(f.name), size: int64(len(f.data))}, nil
}
func (f *memFile) Close() error { return nil }
func (f *memFile) Read(p []byte) (int, error) {
	if f.fs.readErrAt > 0 && f.off >= f.fs.readErrAt {
		f.fs.fired = append(f.fs.fired, "read-error")
		return 0, errors.New("sim: injected read error")
	}
	if f.off >= len(f.data) {
		return 0, io.EOF
	}
	n := len(p)
	if f.fs.chunk > 0 && n > f.fs.chunk {
		n = f.fs.chunk
		f.fs.fired = append(f.fs.fired, "short-read")
	}
	if f.fs.readErrAt > 0 && f.off+n > f.fs.readErrAt {
		n = f.fs.readErrAt - f.off
	}
	if f.off+n > len(f.data) {
		n = len(f.data) - f.off
	}
	copy(p, f.data[f.off:f.off+n])
	f.off += n
	return n, nil
}

func runMemFS(c *FsCase, st *Stats) *Violation {
	files := map[string]string{}
	var names []string
	seen := map[string]bool{}
	for _, n := range c.Nodes {
		if n.Kind == "file" {
			files[n.Path] = fileContent(n.Path)
		}
		for _, comp := range strings.Split(n.Path, "/") {
			if !seen[comp] {
				seen[comp] = true
				names = append(names, comp)
			}
		}
	}
	sort.Strings(names)
	alpha := append([]string{".", ".."}, names...)
	var locs []string
	for _, a := range alpha {
		locs = append(locs, a)
		for _, b := range alpha {
			locs = append(locs, a+"/"+b)
			for _, cc := range []string{"..", "f0.lisp", "s0.lisp", "a"} {
				locs = append(locs, a+"/"+b+"/"+cc)
			}
		}
	}
	loaders := []string{"", "f0.lisp", "root/f0.lisp", "root/a/f1.lisp", "outside/o/s1.lisp"}
	if c.OnlyLoc != "" {
		locs, loaders = []string{c.OnlyLoc}, []string{c.OnlyLoader}
	}
	h := NewHash().Str("memfs")
	pk := 0
	for _, ld := range loaders {
		for _, loc := range locs {
			m := &memFS{files: files}
			if len(c.Picks) > 0 {
				p := c.Picks[pk%len(c.Picks)]
				pk++
				switch p % 5 {
				case 0:
					m.failOpen = 1
				case 1:
					m.readErrAt = 1 + int(p>>8%40)
				case 2:
					m.chunk = 1 + int(p>>8%7)
				}
			}
			lib := &lisp.FSLibrary{FS: m}
			st.Runs++
			_, _, data, err := lib.LoadSource(lisp.NewSourceContext(path.Base(ld), ld), loc)
			fail := func(oracle, format string, a ...any) *Violation {
				c.hintLoc, c.hintLoader = loc, ld
				return Violf(oracle, "fs.FS library, loading file %q, location %q: %s", ld, loc, fmt.Sprintf(format, a...))
			}
			for _, f := range m.fired {
				st.Inc("fault_memfs_" + f + "_fired")
			}
			// the documented meaning: relative to the calling file's directory within the FS
			want := path.Clean(path.Join(path.Dir(ld), loc))
			if ld == "" {
				want = path.Clean(loc)
			}
			if err != nil && len(data) > 0 {
				return fail("data-with-error", "error returned together with %d bytes", len(data))
			}
			if err == nil {
				known := false
				var which string
				for p, cnt := range files {
					if cnt == string(data) {
						known, which = true, p
					}
				}
				if !known {
					return fail("served-unknown-bytes", "%d bytes served that are not the whole content of any file (a prefix after a failed or short read?)", len(data))
				}
				if !fs.ValidPath(want) || strings.HasPrefix(want, "../") || want == ".." {
					return fail("served-outside-fs", "served %q although the location resolves to %q, outside the file system", which, want)
				}
				if which != want {
					return fail("wrong-file-served", "served %q; resolving against the loading file's directory names %q", which, want)
				}
				st.Inc("served_inside_root")
			} else {
				st.Inc("refused_or_failed")
			}
			h = h.Str(fmt.Sprint(err == nil))
		}
	}
	// files that load files, end to end through (load-file ...): every nested
	// relative location resolves against the directory of the file that
	// contains the call, which the library knows only through the true
	// location it reported for that file
	entries := []string{"root/a/chain.lisp", "root/a/chain-up.lisp", "root/a/chain-out.lisp", "root/a/chain2.lisp", "root/call.lisp", "root/a/b/deep.lisp",
		"root/a/../a/chain2.lisp", "./root/call.lisp", "root//a/chain.lisp", "root/a/chain-map.lisp", "root/a/chain-fold.lisp", "root/chain-app.lisp"}
	if c.OnlyVia == "load-file" {
		entries = []string{c.OnlyLoc}
	} else if c.OnlyLoc != "" {
		entries = nil
	}
	for _, entry := range entries {
		for _, viaLoader := range []bool{false, true} {
			m := &memFS{files: map[string]string{}}
			for k, v := range files {
				m.files[k] = v
			}
			lib := &lisp.FSLibrary{FS: m}
			w, err := NewWorld(Knobs{})
			if err != nil {
				return Violf("harness", "%v", err)
			}
			w.RT.Library = lib
			start := entry
			if viaLoader {
				// entered from a file two directories down, by a relative location
				m.files["root/a/zz-loader.lisp"] = fmt.Sprintf("(sim:mark \"loader\")\n(load-file %s)\n", LispString("../../"+entry))
				start = "root/a/zz-loader.lisp"
			}
			st.Runs++
			out := w.Call(func() *lisp.LVal { return w.Env.LoadFile(start) })
			fail := func(oracle, format string, a ...any) *Violation {
				c.hintLoc, c.hintLoader, c.hintVia = entry, "", "load-file"
				return Violf(oracle, "fs.FS library, (load-file %q) (through a loader file: %v): %s", entry, viaLoader, fmt.Sprintf(format, a...))
			}
			if out.GoPanic != "" {
				return fail("go-panic-escaped", "%s", out.GoPanic)
			}
			var evaluated []string
			for _, mk := range w.Marks {
				mk = strings.Trim(mk, "\"")
				if mk != "loader" {
					evaluated = append(evaluated, mk)
				}
			}
			first := path.Clean(entry)
			if _, ok := files[first]; !ok {
				continue
			}
			want, wfail := chainSim(first, func(from, l string) (string, bool) {
				t := path.Clean(path.Join(path.Dir(from), l))
				_, ok := files[t]
				return t, ok && fs.ValidPath(t)
			})
			if wfail != out.IsErr || strings.Join(want, " ") != strings.Join(evaluated, " ") {
				return fail("nested-load-differs", "files evaluated, in order: %v (error: %v); resolving each nested location against the directory of the file that contains the call gives %v (fails: %v)", evaluated, out.IsErr, want, wfail)
			}
			st.Inc("reach_nested_load_from_loaded_file")
			st.Inc("loads_via_load_file")
			h = h.Str(strings.Join(evaluated, " "))
		}
	}
	// code read from a labelled STRING has no loading file: the label must
	// not steer its relative loads
	if c.OnlyLoc == "" || strings.HasPrefix(c.OnlyVia, "named-string") {
		labels := []string{"root/a/inline.lisp", "a/x.lisp", "root/inline.lisp", "outside/o/y.lisp", "./root/a/b/z.lisp"}
		nlocs := []string{"f1.lisp", "f0.lisp", "root/f0.lisp", "a/f1.lisp", "../f0.lisp", "s0.lisp", "b/f2.lisp", "root/a/f1.lisp"}
		for i, label := range labels {
			for j, loc := range nlocs {
				variant := (i + j) % 3
				if c.OnlyLoc != "" {
					if label != c.OnlyLoader || loc != c.OnlyLoc || fmt.Sprintf("named-string-%d", variant) != c.OnlyVia {
						continue
					}
				}
				lib := &lisp.FSLibrary{FS: &memFS{files: files}}
				base, baseErr, gp0, err := namedStringRun(lib, "", loc, variant)
				if err != nil {
					return Violf("harness", "%v", err)
				}
				got, gotErr, gp1, err := namedStringRun(lib, label, loc, variant)
				if err != nil {
					return Violf("harness", "%v", err)
				}
				st.Runs++
				st.Inc("loads_from_named_strings")
				if gp0+gp1 != "" || baseErr != gotErr || strings.Join(base, " ") != strings.Join(got, " ") {
					c.hintLoc, c.hintLoader, c.hintVia = loc, label, fmt.Sprintf("named-string-%d", variant)
					return Violf("string-label-steers-load", "fs.FS library, location %q: a source string labelled %q evaluated %v (error: %v, panic: %q); the same string under its default name evaluated %v (error: %v)", loc, label, got, gotErr, gp0+gp1, base, baseErr)
				}
				h = h.Str(strings.Join(got, " "))
			}
		}
	}
	st.NoteHash(h, true)
	return nil
}

func (fsEngine) Shrink(ci any) []any {
	c := ci.(*FsCase)
	var out []any
	cp := func() *FsCase {
		d := *c
		d.Nodes = append([]FsNode(nil), c.Nodes...)
		d.hintLoc, d.hintLoader, d.hintVia = "", "", ""
		return &d
	}
	if c.hintLoc != "" && c.OnlyLoc == "" {
		d := cp()
		d.OnlyLoc, d.OnlyLoader, d.OnlyVia = c.hintLoc, c.hintLoader, c.hintVia
		d.Picks = nil
		out = append(out, d)
	}
	if c.OnlyVia == "load-file" {
		d := cp()
		d.OnlyVia = "LoadSource"
		out = append(out, d)
	}
	if c.Adv != nil {
		d := cp()
		d.Adv = nil
		out = append(out, d)
	}
	if c.RootSpec != "@/root" && !c.MemFS {
		d := cp()
		d.RootSpec = "@/root"
		out = append(out, d)
	}
	// drop nodes (links first, then files, then directories, deepest first)
	for _, kind := range []string{"link", "file", "dir"} {
		for i := len(c.Nodes) - 1; i >= 0; i-- {
			if c.Nodes[i].Kind != kind {
				continue
			}
			d := cp()
			d.Nodes = append(d.Nodes[:i:i], d.Nodes[i+1:]...)
			out = append(out, d)
		}
	}
	return out
}

// ------------------------------------------------ observing reads of the disk

// diskWatch reports which files of the layout were opened or read, through
// inotify watches on every real directory of the layout.  It is how "no part
// of the outside file is read" becomes observable when the load is refused.
type diskWatch struct {
	fd   int
	dirs map[int32]string // watch descriptor -> directory path relative to base ("" = base)
}

func newDiskWatch(d *fsDisk, nodes []FsNode) *diskWatch {
	fd, err := syscall.InotifyInit1(syscall.IN_NONBLOCK | syscall.IN_CLOEXEC)
	if err != nil {
		return nil
	}
	w := &diskWatch{fd: fd, dirs: map[int32]string{}}
	add := func(rel string) {
		if wd, err := syscall.InotifyAddWatch(fd, filepath.Join(d.base, rel), syscall.IN_OPEN|syscall.IN_ACCESS); err == nil {
			w.dirs[int32(wd)] = rel
		}
	}
	add("")
	for _, n := range nodes {
		if n.Kind == "dir" {
			add(n.Path)
		}
	}
	return w
}

func (w *diskWatch) close() {
	if w != nil {
		_ = syscall.Close(w.fd)
	}
}

// drain returns the layout paths of the non-directory entries opened or read
// since the last call, in order, without duplicates.
func (w *diskWatch) drain() []string {
	if w == nil {
		return nil
	}
	var out []string
	seen := map[string]bool{}
	buf := make([]byte, 16384)
	for {
		n, err := syscall.Read(w.fd, buf)
		if err != nil || n <= 0 {
			return out
		}
		for off := 0; off+syscall.SizeofInotifyEvent <= n; {
			ev := (*syscall.InotifyEvent)(unsafe.Pointer(&buf[off]))
			name := strings.TrimRight(string(buf[off+syscall.SizeofInotifyEvent:off+syscall.SizeofInotifyEvent+int(ev.Len)]), "\x00")
			off += syscall.SizeofInotifyEvent + int(ev.Len)
			if ev.Mask&syscall.IN_ISDIR != 0 || name == "" {
				continue
			}
			p := name
			if dir := w.dirs[ev.Wd]; dir != "" {
				p = dir + "/" + name
			}
			if !seen[p] {
				seen[p] = true
				out = append(out, p)
			}
		}
	}
}

// ------------------------------------------- sources that are not files

// namedStringRun evaluates (load-file loc) from a source that is a STRING, not
// a file, under the free-text label `label` ("" = the default name), and
// returns the files evaluated and whether the load failed.
func namedStringRun(lib lisp.SourceLibrary, label, loc string, variant int) (marks []string, isErr bool, goPanic string, err error) {
	w, err := NewWorld(Knobs{})
	if err != nil {
		return nil, false, "", err
	}
	w.RT.Library = lib
	src := fmt.Sprintf("(load-file %s)", LispString(loc))
	name := ""
	if label != "" {
		name = " :name " + LispString(label)
	}
	var out Outcome
	switch variant % 3 {
	case 0:
		if label == "" {
			label = "snippet"
		}
		out = w.Call(func() *lisp.LVal { return w.Env.LoadString(label, src) })
	case 1:
		out = w.LoadString(fmt.Sprintf("(load-string %s%s)", LispString(src), name))
	default:
		out = w.LoadString(fmt.Sprintf("(load-bytes (to-bytes %s)%s)", LispString(src), name))
	}
	for _, m := range w.Marks {
		marks = append(marks, strings.Trim(m, "\""))
	}
	return marks, out.IsErr, out.GoPanic, nil
}
