//go:build verif

package sim

import "github.com/luthersystems/elps/lisp"

const hookAvailable = true

func setVerifHook(f func(point, detail string)) { lisp.VerifHook = f }
