package sim

import (
	"context"
	"encoding/json"
	"fmt"
	"math"
	"strings"
	"testing"
	"testing/synctest"
	"time"

	"github.com/luthersystems/elps/lisp"
)

// Engine E8 `clock` — property C15 (sleep and clock-coupled clauses) and the
// pending-sleep clause of C04.  Every case runs inside a synctest bubble: the
// interpreter's libtime reads the simulator's fake clock, deadlines and
// cancellations are placed at chosen fake instants, and elapsed time is
// measured exactly.

type SleepCall struct {
	DNs    int64  `json:"d_ns"`
	MaxNs  int64  `json:"max_ns,omitempty"`
	HasMax bool   `json:"has_max,omitempty"`
	MaxBad string `json:"max_bad,omitempty"` // "notdur": :max is not a duration
}

type ClockCase struct {
	CtxKind    string `json:"ctx"` // none | background | cancel | deadline | deadline-nodone | deadline-cancel | cancelled
	DeadlineNs int64  `json:"deadline_ns,omitempty"`
	CancelNs   int64  `json:"cancel_ns,omitempty"`
	CeilingNs  int64  `json:"ceiling_ns,omitempty"`
	// CeilingHow says how the host configured the ceiling: "" = the
	// WithMaxSleep option at construction; "field" = by assigning the exported
	// Runtime.MaxSleep after construction; "retighten" = a looser ceiling by
	// option first, then the real one by assignment; "reoption" = a looser
	// ceiling by option first, then the real one by applying the option again
	CeilingHow string      `json:"ceiling_how,omitempty"`
	Sleeps     []SleepCall `json:"sleeps"`
	TRO        string      `json:"tro,omitempty"`
	// Via says how the sleeps are reached: "" = written directly in the
	// evaluated source; "fn-other-ctx" = through a function that was defined
	// by an earlier evaluation under a DIFFERENT (background / cancel-only /
	// already cancelled) context; "root-ctx" = the environment also carries a
	// root context installed with WithContext, different from the call's
	Via string `json:"via,omitempty"`
	// Nested: exactly two sleeps, the second one inside a handler for
	// context-cancelled around the first (entered when the first is refused
	// beyond the deadline, or -- never, if evaluation stops as it must -- when
	// the context dies during it)
	Nested bool   `json:"nested,omitempty"`
	OldCtx string `json:"old_ctx,omitempty"` // background | cancelled | deadline-past | long-deadline
	// Build says how the host assembled the runtime: "" = lisp.NewEnv (the
	// standard runtime); "literal" = a Runtime composite literal handed to
	// NewEnvRuntime, field by field, as elpstest's runner does
	Build string `json:"build,omitempty"`
}

type clockEngine struct {
	name, prop string
	t          *testing.T
}

func init() {
	Register(&clockEngine{name: "clock", prop: "C15"})
	Register(&clockEngine{name: "sleepcancel", prop: "C04"})
}

func (e *clockEngine) SetT(t *testing.T) { e.t = t }
func (e *clockEngine) Name() string      { return e.name }
func (e *clockEngine) Property() string  { return e.prop }
func (e *clockEngine) NumCases(tier string) int {
	n := 8000
	if tier == "thorough" {
		n = 4000000
	}
	if e.name == "sleepcancel" {
		n /= 8
	}
	return n
}
func (e *clockEngine) Decode(raw []byte) (any, error) {
	c := &ClockCase{}
	return c, json.Unmarshal(raw, c)
}

const hourNs = int64(time.Hour)

// ---------------------------------------------------------------- model

type sleepState struct {
	now     int64
	kind    string
	D, T    int64
	ceiling int64
	dead    bool // the context has been cancelled: every later step fails
}

type sleepPred struct {
	classes []string // acceptable outcome classes
	elapsed int64
	dead    bool
	tie     bool
}

// modelSleep is the reference model of one (time:sleep d [:max m]) call,
// written from docs/lang.md "Sleep length" and the property text.
func modelSleep(s *sleepState, c SleepCall) sleepPred {
	// "deadline-lag": the context reports a deadline, has no Done channel and
	// its Err stays nil after the deadline (a wrapper whose cancellation lags
	// its deadline); only the sleep's own deadline arithmetic bounds it
	lag := s.kind == "deadline-lag"
	hasDeadline := s.kind == "deadline" || s.kind == "deadline-nodone" || s.kind == "deadline-cancel" || lag
	hasCancel := (s.kind == "cancel" || s.kind == "deadline-cancel") && s.T > 0
	if s.dead || s.kind == "cancelled" {
		return sleepPred{classes: []string{"context-cancelled"}, dead: true}
	}
	if hasDeadline && !lag && s.D <= s.now {
		return sleepPred{classes: []string{"context-cancelled"}, dead: true, tie: s.D == s.now}
	}
	if hasCancel && s.T <= s.now {
		return sleepPred{classes: []string{"context-cancelled"}, dead: true, tie: s.T == s.now}
	}
	ceiling := s.ceiling
	if ceiling < 0 {
		ceiling = 0
	}
	if c.MaxBad != "" {
		return sleepPred{classes: []string{"error"}}
	}
	var cap int64
	if c.HasMax {
		if c.MaxNs <= 0 {
			return sleepPred{classes: []string{"error"}}
		}
		if ceiling > 0 && c.MaxNs > ceiling {
			return sleepPred{classes: []string{"sleep-limit-exceeded"}}
		}
		cap = c.MaxNs
	} else {
		cap = hourNs
		if ceiling > 0 && ceiling < cap {
			cap = ceiling
		}
	}
	if c.DNs > cap {
		return sleepPred{classes: []string{"sleep-limit-exceeded"}}
	}
	if c.DNs <= 0 {
		return sleepPred{classes: []string{"nil"}}
	}
	d := c.DNs
	if hasDeadline {
		rem := s.D - s.now
		if rem < d {
			return sleepPred{classes: []string{"context-cancelled"}} // refused immediately; nothing was cancelled
		}
		if rem == d && lag {
			return sleepPred{classes: []string{"nil"}, elapsed: d}
		}
		if rem == d {
			if hasCancel && s.T-s.now < d {
				return sleepPred{classes: []string{"context-cancelled"}, elapsed: s.T - s.now, dead: true}
			}
			return sleepPred{classes: []string{"nil", "context-cancelled"}, elapsed: d, dead: true, tie: true}
		}
	}
	if hasCancel {
		left := s.T - s.now
		if left < d {
			return sleepPred{classes: []string{"context-cancelled"}, elapsed: left, dead: true}
		}
		if left == d {
			return sleepPred{classes: []string{"nil", "context-cancelled"}, elapsed: d, dead: true, tie: true}
		}
	}
	return sleepPred{classes: []string{"nil"}, elapsed: d}
}

// -------------------------------------------------------------- generator

func (e *clockEngine) Gen(r *Rand, tier string) any {
	c := &ClockCase{}
	kinds := []string{"none", "background", "cancel", "deadline", "deadline-nodone", "deadline-cancel", "cancelled", "deadline-lag"}
	w := []int{3, 3, 6, 6, 3, 4, 1, 3}
	if e.name == "sleepcancel" {
		w = []int{0, 0, 8, 2, 1, 4, 0, 0}
	}
	c.CtxKind = kinds[r.Pick(w)]
	c.TRO = PickStr(r, []string{"", "", "debugger"})
	if c.CtxKind != "none" && r.Chance(1, 3) {
		c.Via = PickStr(r, []string{"fn-other-ctx", "root-ctx", "nested-load", "nested-load"})
		c.OldCtx = PickStr(r, []string{"background", "cancelled", "deadline-past", "long-deadline"})
	}
	c.CeilingNs = []int64{0, 0, -1, 30 * int64(time.Minute), hourNs, 2 * hourNs, 1, int64(time.Second)}[r.Intn(8)]
	if r.Chance(1, 3) {
		c.CeilingHow = PickStr(r, []string{"field", "retighten", "reoption"})
	}
	span := []int64{1, 1000, int64(time.Second), int64(7 * time.Minute), hourNs, 3 * hourNs, 30 * 24 * hourNs}[r.Intn(7)]
	pickT := func() int64 { return 1 + r.I63n(span*2) }
	switch c.CtxKind {
	case "cancel":
		c.CancelNs = pickT()
	case "deadline", "deadline-nodone", "deadline-lag":
		c.DeadlineNs = pickT()
	case "deadline-cancel":
		c.DeadlineNs = pickT()
		c.CancelNs = pickT()
	}
	if r.Chance(1, 5) {
		c.Build = "literal"
	}
	hostBinding := c.Via == "" && r.Chance(1, 6)
	if hostBinding {
		// the sleeps go through an embedder's own one-formal binding of
		// libtime.BuiltinSleep (no :max can be passed through it)
		c.Via = "host-binding"
	}
	st := &sleepState{kind: c.CtxKind, D: c.DeadlineNs, T: c.CancelNs, ceiling: c.CeilingNs}
	n := r.Range(1, 4)
	for i := 0; i < n; i++ {
		call := SleepCall{}
		ceiling := c.CeilingNs
		if ceiling < 0 {
			ceiling = 0
		}
		kindW := []int{6, 3, 1}
		if hostBinding {
			kindW = []int{1, 0, 0}
		}
		switch r.Pick(kindW) {
		case 1:
			call.HasMax = true
			opts := []int64{1, int64(time.Second), hourNs, hourNs + 1, 5 * hourNs, 24 * 365 * 100 * hourNs, 0, -1}
			if ceiling > 0 {
				opts = append(opts, ceiling-1, ceiling, ceiling+1)
			}
			call.MaxNs = opts[r.Intn(len(opts))]
			if c.DeadlineNs > 0 && ceiling == 0 && r.Chance(1, 4) {
				// no cap to speak of: only the deadline stands between an
				// enormous duration and the timer
				call.MaxNs = math.MaxInt64
			}
		case 2:
			call.MaxBad = "notdur"
		}
		cap := hourNs
		if call.HasMax && call.MaxNs > 0 {
			cap = call.MaxNs
		} else if ceiling > 0 && ceiling < cap {
			cap = ceiling
		}
		cands := []int64{0, -1, 1, cap - 1, cap, cap + 1, 1 + r.I63n(span), 1 + r.I63n(cap)}
		if call.HasMax && call.MaxNs == math.MaxInt64 {
			cands = []int64{math.MaxInt64, math.MaxInt64 - 1, 9000000000000000000, 8400000000000000000, math.MaxInt64 - c.DeadlineNs, math.MaxInt64 - 946684800000000000, c.DeadlineNs + 1}
		} else if r.Chance(1, 6) {
			// durations at the edge of the representable range: always above
			// every cap, whatever is added to or subtracted from them
			cands = []int64{math.MaxInt64, math.MaxInt64 - 1, math.MinInt64, math.MinInt64 + 1, math.MaxInt64 - cap}
		}
		if c.DeadlineNs > 0 {
			rem := c.DeadlineNs - st.now
			cands = append(cands, rem-1, rem, rem+1, rem/2, rem-1, rem+1)
		}
		if c.CancelNs > 0 {
			left := c.CancelNs - st.now
			cands = append(cands, left-1, left, left+1, left+1, left*2, left/2)
		}
		call.DNs = cands[r.Intn(len(cands))]
		c.Sleeps = append(c.Sleeps, call)
		p := modelSleep(st, call)
		st.now += p.elapsed
		if p.dead || p.tie {
			st.dead = true
			break
		}
	}
	if c.CtxKind != "none" && c.CtxKind != "background" && r.Chance(1, 5) {
		c.Nested = true
		c.Sleeps = c.Sleeps[:1]
		rem, left := c.DeadlineNs-st.now, c.CancelNs-st.now
		cands := []int64{1, int64(time.Second), hourNs, span, 1 + r.I63n(span)}
		if c.DeadlineNs > 0 {
			cands = append(cands, rem-1, rem+1, rem+1, 2*rem+1, rem/2, c.DeadlineNs, c.DeadlineNs+1)
		}
		if c.CancelNs > 0 {
			cands = append(cands, left-1, left+1, left+1, 2*left+1, c.CancelNs+1)
		}
		c.Sleeps = append(c.Sleeps, SleepCall{DNs: cands[r.Intn(len(cands))]})
		if r.Chance(1, 2) && c.DeadlineNs > 0 {
			// make the first sleep one that is refused beyond the deadline
			c.Sleeps[0] = SleepCall{DNs: c.DeadlineNs + 1 + r.I63n(1000)}
		}
	}
	return c
}

// ------------------------------------------------------------------- run

type ddlCtx struct {
	d   time.Time
	lag bool // Err stays nil after the deadline
}

func (c ddlCtx) Deadline() (time.Time, bool) { return c.d, true }
func (c ddlCtx) Done() <-chan struct{}       { return nil }
func (c ddlCtx) Value(any) any               { return nil }
func (c ddlCtx) Err() error {
	if !c.lag && !time.Now().Before(c.d) {
		return context.DeadlineExceeded
	}
	return nil
}

func durLit(ns int64) string { return fmt.Sprintf("(time:parse-duration \"%dns\")", ns) }

func clockProgram(c *ClockCase) string {
	var b strings.Builder
	h := "(handler-bind ((condition (lambda (c &rest d) c)))"
	nested := ""
	for i, s := range c.Sleeps {
		sleepFn := "time:sleep"
		if c.Via == "fn-other-ctx" {
			sleepFn = "nap"
		}
		if c.Via == "host-binding" && !s.HasMax && s.MaxBad == "" {
			sleepFn = "sim:nap"
		}
		call := "(" + sleepFn + " " + durLit(s.DNs)
		if s.MaxBad != "" {
			call += " :max 5"
		} else if s.HasMax {
			call += " :max " + durLit(s.MaxNs)
		}
		call += ")"
		if c.Via == "nested-load" {
			// the sleep sits in a source loaded by load-string / load-bytes from
			// inside a function body, a let or a lambda (the loaded source is
			// evaluated in the root environment, under the caller's context)
			q := LispString(call)
			switch (i + len(c.Sleeps)) % 4 {
			case 0:
				call = "((lambda () (load-string " + q + ")))"
			case 1:
				call = "(let ((zz 1)) (load-string " + q + "))"
			case 2:
				call = "(flet ((nl (s) (load-bytes (to-bytes s)))) (nl " + q + "))"
			default:
				call = "(let* ((zz 1)) (if zz (load-string (concat 'string \"(progn \" " + q + " \")\")) ()))"
			}
		}
		if c.Nested {
			if i == 0 {
				nested = call
				continue
			}
			fmt.Fprintf(&b, "(sim:probe 'before 0)\n(sim:probe 'r 0 %s (handler-bind ((context-cancelled (lambda (c &rest d) (sim:probe 'before 1) (sim:probe 'r 1 %s %s)) c))) %s)))\n", h, h, call, nested)
			break
		}
		if c.Via == "nested-load" {
			// reached through a lisp function called from the top level: no
			// builtin or operator of the root environment is on the way
			fmt.Fprintf(&b, "(defun zrun%d () %s %s))\n(set 't0 (time:utc-now))\n(sim:probe 'before %d)\n(sim:probe 'r %d (zrun%d))\n(set 't1 (time:utc-now))\n", i, h, call, i, i, i)
		} else {
			fmt.Fprintf(&b, "(set 't0 (time:utc-now))\n(sim:probe 'before %d)\n(sim:probe 'r %d %s %s))\n(set 't1 (time:utc-now))\n", i, i, h, call)
		}
		fmt.Fprintf(&b, "(sim:probe 'clk %d (time:duration-ns (time:time-from t0 t1)) (time:time< t0 t1) (time:time> t0 t1) (time:time= t0 t1) (time:time= (time:time-add t0 (time:time-from t0 t1)) t1) (time:time= (time:parse-rfc3339-nano (time:format-rfc3339-nano t1)) t1) (= (time:duration-ns (time:time-elapsed t0)) (time:duration-ns (time:time-from t0 t1))) (time:time= (time:time-add t1 (time:time-from t1 t0)) t0))\n", i)
	}
	return b.String()
}

func (e *clockEngine) Run(ci any, st *Stats) *Violation {
	c := ci.(*ClockCase)
	if e.t == nil {
		return Violf("harness", "clock engine needs a *testing.T")
	}
	var viol *Violation
	func() {
		defer func() {
			if r := recover(); r != nil {
				viol = Violf("harness", "bubble panicked: %v", r)
			}
		}()
		synctest.Test(e.t, func(t *testing.T) { viol = e.runInBubble(c, st) })
	}()
	return viol
}

func (e *clockEngine) runInBubble(c *ClockCase, st *Stats) *Violation {
	k := Knobs{TimeLib: true, TRO: c.TRO, MaxSleepN: c.CeilingNs, HandBuilt: c.Build == "literal"}
	switch c.CeilingHow {
	case "field":
		k.MaxSleepN = 0
	case "retighten", "reoption":
		k.MaxSleepN = 3 * hourNs
	}
	w, err := NewWorld(k)
	if err != nil {
		return Violf("harness", "%v", err)
	}
	switch c.CeilingHow {
	case "field", "retighten":
		w.RT.MaxSleep = time.Duration(c.CeilingNs)
		st.Inc("config_ceiling_assigned_to_runtime_field")
	case "reoption":
		if v := lisp.WithMaxSleep(time.Duration(c.CeilingNs))(w.Env); v != nil && v.Type == lisp.LError {
			return Violf("harness", "WithMaxSleep: %v", v)
		}
		st.Inc("config_ceiling_option_applied_twice")
	}
	start := time.Now()
	type stamp struct {
		tag string
		at  int64
		ev  Event
	}
	var stamps []stamp
	w.OnProbe = func(_ *World, ev *Event) {
		stamps = append(stamps, stamp{ev.Tag, int64(time.Since(start)), *ev})
	}
	var ctx context.Context
	var stops []func()
	switch c.CtxKind {
	case "none":
	case "background":
		ctx = context.Background()
	case "cancel":
		cctx, cancel := context.WithCancel(context.Background())
		ctx = cctx
		tm := time.AfterFunc(time.Duration(c.CancelNs), cancel)
		stops = append(stops, func() { tm.Stop(); cancel() })
	case "deadline":
		cctx, cancel := context.WithDeadline(context.Background(), start.Add(time.Duration(c.DeadlineNs)))
		ctx = cctx
		stops = append(stops, cancel)
	case "deadline-nodone":
		ctx = ddlCtx{d: start.Add(time.Duration(c.DeadlineNs))}
	case "deadline-lag":
		ctx = ddlCtx{d: start.Add(time.Duration(c.DeadlineNs)), lag: true}
	case "deadline-cancel":
		cctx, cancel := context.WithDeadline(context.Background(), start.Add(time.Duration(c.DeadlineNs)))
		ctx = cctx
		tm := time.AfterFunc(time.Duration(c.CancelNs), cancel)
		stops = append(stops, func() { tm.Stop(); cancel() })
	case "cancelled":
		cctx, cancel := context.WithCancel(context.Background())
		cancel()
		ctx = cctx
	}
	defer func() {
		for _, f := range stops {
			f()
		}
	}()
	src := clockProgram(c)
	// a context that belongs to an EARLIER evaluation (or to the root environment)
	oldCtx := func() context.Context {
		switch c.OldCtx {
		case "cancelled":
			x, cancel := context.WithCancel(context.Background())
			cancel()
			return x
		case "deadline-past":
			x, cancel := context.WithDeadline(context.Background(), start.Add(-time.Second))
			stops = append(stops, cancel)
			return x
		case "long-deadline":
			x, cancel := context.WithDeadline(context.Background(), start.Add(1000*time.Hour))
			stops = append(stops, cancel)
			return x
		}
		return context.Background()
	}
	switch c.Via {
	case "fn-other-ctx":
		// the sleeping function is defined under another context; only its definition happens there
		def := "(defun nap (d &key max) (if max (time:sleep d :max max) (time:sleep d)))"
		var o Outcome
		if c.OldCtx == "cancelled" || c.OldCtx == "deadline-past" {
			// a dead context cannot evaluate anything: define under a live one that is cancelled afterwards
			x, cancel := context.WithCancel(context.Background())
			o = w.Call(func() *lisp.LVal { return w.Env.LoadStringContext(x, "def", def) })
			cancel()
		} else {
			o = w.Call(func() *lisp.LVal { return w.Env.LoadStringContext(oldCtx(), "def", def) })
		}
		if o.IsErr {
			return Violf("harness", "defining nap: %s", o.Result())
		}
		w.Events = nil
		stamps = nil
	case "root-ctx":
		lisp.WithContext(oldCtx())(w.Env)
	}
	var out Outcome
	if ctx == nil {
		out = w.Call(func() *lisp.LVal { return w.Env.LoadString("clock", src) })
	} else {
		out = w.Call(func() *lisp.LVal { return w.Env.LoadStringContext(ctx, "clock", src) })
	}
	end := int64(time.Since(start))
	st.Runs++
	st.SimTimeS += float64(end) / 1e9
	st.SimSteps += out.Steps
	if out.GoPanic != "" {
		return Violf("go-panic-escaped", "%s", out.GoPanic)
	}

	ms := &sleepState{kind: c.CtxKind, D: c.DeadlineNs, T: c.CancelNs, ceiling: c.CeilingNs}
	h := NewHash().Str(c.CtxKind)
	nontrivial := false
	si := 0
	class0 := ""
	for i, call := range c.Sleeps {
		pred := modelSleep(ms, call)
		// locate this sleep's stamps
		var before, res, clk *stamp
		for c.Nested && si < len(stamps) {
			// nested order: before 0, [before 1, r 1,] r 0
			if s := &stamps[si]; strings.HasPrefix(s.ev.Args, fmt.Sprint(i)) {
				switch s.tag {
				case "before":
					before = s
				case "r":
					res = s
				}
			}
			si++
		}
		if c.Nested {
			si = 0
			if i > 1 {
				break
			}
		}
		for !c.Nested && si < len(stamps) {
			s := &stamps[si]
			if !strings.HasPrefix(s.ev.Args, fmt.Sprint(i)) {
				break
			}
			switch s.tag {
			case "before":
				before = s
			case "r":
				res = s
			case "clk":
				clk = s
			}
			si++
		}
		fail := func(oracle, format string, a ...any) *Violation {
			return Violf(oracle, "sleep %d (d=%v max=%v/%v ceiling=%v, ctx %s D=%v T=%v, now=%v): %s", i,
				time.Duration(call.DNs), call.HasMax, time.Duration(call.MaxNs), time.Duration(c.CeilingNs), c.CtxKind,
				time.Duration(c.DeadlineNs), time.Duration(c.CancelNs), time.Duration(ms.now), fmt.Sprintf(format, a...))
		}
		if before == nil {
			if c.Nested && i == 1 && class0 != "context-cancelled" {
				break // the handler was not entered, and had no reason to be
			}
			// the evaluation died before reaching this sleep
			if !ms.dead && !(pred.dead && pred.elapsed == 0) {
				return fail("sleep-outcome", "evaluation ended before this sleep with %q although the context was alive", out.Result())
			}
			break
		}
		var class string
		var at int64
		var inner *stamp
		if c.Nested && i == 0 {
			for j := range stamps {
				if stamps[j].tag == "before" && strings.HasPrefix(stamps[j].ev.Args, "1") {
					inner = &stamps[j]
				}
			}
		}
		if inner != nil {
			// the handler for context-cancelled was entered: that is how the first sleep ended, and when
			at, class = inner.at, "context-cancelled"
			st.Inc("reach_sleep_inside_context_cancelled_handler")
		} else if res != nil {
			at = res.at
			parts := strings.SplitN(res.ev.Args, " ", 2)
			class = "nil"
			if len(parts) == 2 && parts[1] != "()" {
				class = strings.TrimPrefix(parts[1], "'")
			}
		} else {
			at = end
			class = out.Cond
			if !out.IsErr {
				class = "value:" + out.Value
			}
		}
		elapsed := at - before.at
		if i == 0 {
			class0 = class
		}
		okClass := false
		for _, cl := range pred.classes {
			if cl == class {
				okClass = true
			}
		}
		st.Inc("sleep_outcome_" + class)
		if pred.tie {
			// an exact tie may legitimately go either way: keep it out of the
			// execution hash so the simulator's own log stays reproducible
			h = h.Str("tie").Int(elapsed)
		} else {
			h = h.Str(class).Int(elapsed)
		}
		if class != "nil" || pred.tie {
			nontrivial = true
		}
		switch {
		case pred.tie:
			st.Inc("reach_deadline_or_cancel_tie")
		case class == "sleep-limit-exceeded":
			st.Inc("fault_refused_above_cap")
		case class == "context-cancelled" && pred.elapsed > 0:
			st.Inc("fault_cancel_during_pending_sleep")
		case class == "context-cancelled" && !pred.dead:
			st.Inc("fault_refused_beyond_deadline")
		case class == "context-cancelled":
			st.Inc("fault_context_already_cancelled")
		}
		if call.DNs > hourNs && class == "nil" {
			st.Inc("reach_long_sleep_under_max")
		}
		if elapsed > call.DNs && call.DNs >= 0 {
			return fail("sleep-overslept", "blocked %v, longer than requested", time.Duration(elapsed))
		}
		if !okClass {
			if class == "nil" && pred.classes[0] != "nil" && elapsed > 0 {
				return fail("sleep-not-refused", "slept %v and returned (); the model refuses it with %v", time.Duration(elapsed), pred.classes)
			}
			return fail("sleep-outcome", "outcome %q after %v; model expects %v after %v", class, time.Duration(elapsed), pred.classes, time.Duration(pred.elapsed))
		}
		if elapsed != pred.elapsed {
			if pred.elapsed == 0 {
				return fail("sleep-refusal-not-immediate", "outcome %q only after %v of blocking; a refusal must not sleep", class, time.Duration(elapsed))
			}
			return fail("sleep-duration", "blocked %v; model expects exactly %v", time.Duration(elapsed), time.Duration(pred.elapsed))
		}
		// clock-coupled arithmetic
		if clk != nil {
			want := fmt.Sprintf("%d %d %v false %v true true true true", i, elapsed, elapsed > 0, elapsed == 0)
			if got := strings.ReplaceAll(clk.ev.Args, "'", ""); got != want {
				return fail("clock-arithmetic", "instants read around the sleep: (ns lt gt eq add-identity format-parse-identity elapsed-agrees add-back-identity) = [%s], want [%s]", got, want)
			}
			st.Inc("clock_readings_checked")
		}
		ms.now += pred.elapsed
		if pred.dead || pred.tie {
			ms.dead = true
			if pred.tie {
				break
			}
		}
	}
	st.NoteHash(h, nontrivial)
	return nil
}

func (e *clockEngine) Shrink(ci any) []any {
	c := ci.(*ClockCase)
	var out []any
	for i := range c.Sleeps {
		if len(c.Sleeps) > 1 {
			d := *c
			d.Sleeps = append(append([]SleepCall(nil), c.Sleeps[:i]...), c.Sleeps[i+1:]...)
			d.Nested = false
			out = append(out, &d)
		}
	}
	if c.CeilingNs != 0 {
		d := *c
		d.CeilingNs = 0
		out = append(out, &d)
	}
	if c.CeilingHow != "" {
		d := *c
		d.CeilingHow = ""
		out = append(out, &d)
	}
	if c.TRO != "" {
		d := *c
		d.TRO = ""
		out = append(out, &d)
	}
	for i, s := range c.Sleeps {
		if s.HasMax || s.MaxBad != "" {
			d := *c
			d.Sleeps = append([]SleepCall(nil), c.Sleeps...)
			d.Sleeps[i].HasMax, d.Sleeps[i].MaxNs, d.Sleeps[i].MaxBad = false, 0, ""
			out = append(out, &d)
		}
	}
	return out
}
