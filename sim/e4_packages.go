package sim

import (
	"encoding/json"
	"fmt"
	"regexp"
	"sort"
	"strconv"
	"strings"

	"github.com/luthersystems/elps/lisp"
)

// Engine E4 `packages` — property C08.  Histories of package operations in
// one long-lived runtime (loads that nest, switch package and fail part-way)
// compared, operation by operation, with an executable model of the package
// registry written from docs/lang.md and the property text.

type PkgOp struct {
	Entry string  `json:"entry"` // "load" (package restored afterwards) | "eval" (each form through Eval: package changes persist)
	Forms []*Node `json:"forms"`
}

type PkgCase struct {
	Knobs  Knobs       `json:"knobs"`
	Ops    []PkgOp     `json:"ops"`
	Faults []FaultSpec `json:"faults,omitempty"` // hit numbers count over the whole history
}

type pkgEngine struct{}

func init() { Register(pkgEngine{}) }

func (pkgEngine) Name() string     { return "packages" }
func (pkgEngine) Property() string { return "C08" }
func (pkgEngine) NumCases(tier string) int {
	if tier == "thorough" {
		return 600000
	}
	return 24000
}
func (pkgEngine) Decode(raw []byte) (any, error) {
	c := &PkgCase{}
	return c, json.Unmarshal(raw, c)
}

var (
	pkgNames = []string{"user", "pa", "pb", "pc"}
	varNames = []string{"a0", "a1", "a2", "a3"}
	funNames = []string{"f0", "f1", "f2"}
	macNames = []string{"m0", "m1"}
)

// --------------------------------------------------------------- generator

type pkgGen struct {
	r     *Rand
	valN  int
	fpN   int
	prN   int
	lex   []string
	noDef int // >0 while generating a let init: no defun/defmacro there (closure capture of the let's own scope is a lexical-scoping matter, not C08's)
}

func (g *pkgGen) val() *Node { g.valN++; return I(1000 + g.valN) }

func (g *pkgGen) name() string { return PickStr(g.r, varNames) }

func (g *pkgGen) ref() *Node {
	switch g.r.Pick([]int{5, 4, 1, 1}) {
	case 0:
		if len(g.lex) > 0 && g.r.Bool() {
			return A(PickStr(g.r, g.lex))
		}
		return A(g.name())
	case 1:
		if g.r.Chance(1, 8) {
			return A("lisp:" + g.name())
		}
		return A(PickStr(g.r, pkgNames) + ":" + g.name())
	case 2:
		return A(":" + g.name())
	default:
		return A(PickStr(g.r, []string{"true", "false"}))
	}
}

func (g *pkgGen) callee() *Node {
	n := PickStr(g.r, append(append([]string(nil), funNames...), macNames...))
	if g.r.Chance(1, 10) {
		return A("lisp:" + n)
	}
	if g.r.Chance(1, 2) {
		return A(PickStr(g.r, pkgNames) + ":" + n)
	}
	return A(n)
}

func (g *pkgGen) T(d int) *Node {
	if d <= 0 {
		if g.r.Bool() {
			return g.val()
		}
		return g.ref()
	}
	w := []int{4, 8, 10, 3, 3, 4, 3, 4, 5, 4, 4, 3, 7, 3, 4, 3, 3, 3, 3, 2, 3}
	if g.noDef > 0 {
		w[11], w[13] = 0, 0
	}
	switch g.r.Pick(w) {
	case 20:
		return g.shadow()
	case 18:
		// a function whose formal is an ordinary name or one of the constants
		v := g.name()
		if g.r.Chance(1, 3) {
			v = PickStr(g.r, []string{"true", "false"})
		} else if g.r.Chance(1, 4) {
			v = ":" + v // a keyword spelled as a formal: accepted, and still never bound
		}
		arg := g.T(d - 1)
		g.lex = append(g.lex, v)
		body := g.T(d - 1)
		g.lex = g.lex[:len(g.lex)-1]
		return Call("funcall", L(A("lambda"), L(A(v)), Call("list", A(v), body)), arg)
	case 19:
		// definitions made while the language package itself is current
		if g.r.Chance(1, 3) {
			// the language package gains an export: packages created later
			// start with it, packages that already exist keep what they have
			n := g.name()
			return Call("progn", Call("in-package", QS("lisp")), Call("set", QS(n), g.val()), Call("export", QS(n)),
				Call("in-package", QS(PickStr(g.r, pkgNames))))
		}
		return Call("progn", Call("in-package", QS("lisp")), PickNode(g.r,
			Call("set", QS(g.name()), g.val()),
			L(A("defun"), A(PickStr(g.r, funNames)), L(), Call("list", g.val(), Call("sim:cur-pkg"), Call("ignore-errors", A(g.name()))))),
			Call("in-package", QS(PickStr(g.r, pkgNames))))
	case 0:
		return g.val()
	case 1:
		return g.ref()
	case 2:
		return Call("set", QS(g.name()), g.T(d-1))
	case 3:
		return Call("set", QS(PickStr(g.r, pkgNames)+":"+g.name()), g.T(d-1))
	case 4:
		return Call("set", QS(PickStr(g.r, []string{":" + g.name(), "true", "false"})), g.val())
	case 5:
		if len(g.lex) > 0 && g.r.Bool() {
			return Call("set!", A(PickStr(g.r, g.lex)), g.T(d-1))
		}
		return Call("set!", A(g.name()), g.T(d-1))
	case 6:
		v := g.name()
		if g.r.Chance(1, 8) {
			v = PickStr(g.r, []string{"true", "false"})
		} else if g.r.Chance(1, 6) {
			v = ":" + v // a keyword spelled as a let variable: accepted, and still never bound
		}
		g.noDef++
		init := g.T(d - 1)
		g.noDef--
		g.lex = append(g.lex, v)
		body := []*Node{g.T(d - 1)}
		if g.r.Bool() {
			body = append(body, g.T(d-1))
		}
		g.lex = g.lex[:len(g.lex)-1]
		return L(append([]*Node{A("let"), L(L(A(v), init))}, body...)...)
	case 7:
		n := g.r.Range(2, 3)
		xs := []*Node{A("progn")}
		for i := 0; i < n; i++ {
			xs = append(xs, g.T(d-1))
		}
		return L(xs...)
	case 8:
		if g.r.Chance(1, 5) {
			// a refused in-package (a documentation argument that is not a
			// string), swallowed, then the well-formed call for the same name:
			// whatever the refused call did or did not do, the package must
			// come out like any other (possibly new) package
			p := PickStr(g.r, pkgNames)
			return Call("progn", Call("ignore-errors", Call("in-package", QS(p), I(42))), Call("in-package", QS(p)))
		}
		return Call("in-package", QS(PickStr(g.r, pkgNames)))
	case 9:
		xs := []*Node{A("export")}
		for i := 0; i < g.r.Range(1, 3); i++ {
			xs = append(xs, QS(PickStr(g.r, append(append([]string(nil), varNames...), funNames...))))
		}
		return L(xs...)
	case 10:
		return Call("use-package", QS(PickStr(g.r, pkgNames)))
	case 11:
		g.valN++
		f := PickStr(g.r, funNames)
		ref := g.ref()
		body := Call("list", I(1000+g.valN), Call("sim:cur-pkg"), Call("ignore-errors", ref))
		if g.r.Chance(1, 3) {
			// an earlier body form that can fail: the caller's package must be back afterwards
			g.fpN++
			return L(A("defun"), A(f), L(), Call("sim:fp", I(g.fpN), I(0)), body)
		}
		return L(A("defun"), A(f), L(), body)
	case 12:
		return L(g.callee())
	case 13:
		m := PickStr(g.r, macNames)
		if g.r.Bool() {
			return L(A("defmacro"), A(m), L(), QS(g.name()))
		}
		return L(A("defmacro"), A(m), L(), A(g.name()))
	case 14:
		save := g.lex
		g.lex = nil
		n := g.r.Range(1, 3)
		var fs []*Node
		for i := 0; i < n; i++ {
			fs = append(fs, g.T(d-1))
		}
		g.lex = save
		if g.r.Chance(1, 3) {
			return Call("load-bytes", Call("to-bytes", Str(Src(fs))))
		}
		return Call("load-string", Str(Src(fs)))
	case 15:
		n := g.r.Range(1, 2)
		xs := []*Node{A("ignore-errors")}
		for i := 0; i < n; i++ {
			xs = append(xs, g.T(d-1))
		}
		return L(xs...)
	case 16:
		g.fpN++
		return Call("sim:fp", I(g.fpN), g.T(d-1))
	default:
		return Call("list", Call("sim:cur-pkg"), g.T(d-1))
	}
}

// shadow is a lexical binding that carries the name of a special operator,
// macro, builtin or package-level function and is used in operator position:
// the unqualified head resolves lexically first, so the local function runs.
// The whole construct is one atom (the model reads the expected value out of
// its text; the shrinker cannot take it apart).
func (g *pkgGen) shadow() *Node {
	g.valN++
	v := 1000 + g.valN
	op := PickStr(g.r, []string{"if", "progn", "or", "and", "cond", "assert", "let", "let*", "quote", "set", "lambda", "handler-bind", "ignore-errors",
		"dotimes", "defun", "list", "car", "concat", "map", "f0", "f1", "m0", "in-package", "use-package", "export", "thread-first", "funcall"})
	switch g.r.Intn(4) {
	case 0:
		return A(fmt.Sprintf("(flet ((%s (&rest zs) %d)) (%s 1 2))", op, v, op))
	case 1:
		return A(fmt.Sprintf("(let ((%s (lambda (&rest zs) %d))) (%s 1 2))", op, v, op))
	case 2:
		return A(fmt.Sprintf("(labels ((%s (&rest zs) %d)) (%s 1 2))", op, v, op))
	default:
		return A(fmt.Sprintf("((lambda (%s) (%s 1 2)) (lambda (&rest zs) %d))", op, op, v))
	}
}

var shadowRe = regexp.MustCompile(`\(&rest zs\) (\d+)\)`)

func (g *pkgGen) probe(n *Node) *Node {
	g.prN++
	return Call("sim:probe", QS(fmt.Sprintf("t%d", g.prN)), n)
}

func (pkgEngine) Gen(r *Rand, tier string) any {
	c := &PkgCase{}
	c.Knobs.TRO = PickStr(r, []string{"", "", "debugger", "profiler"})
	g := &pkgGen{r: r}
	var scenarioFaults []FaultSpec
	nops := r.Range(2, 7)
	for i := 0; i < nops; i++ {
		op := PkgOp{Entry: PickStr(r, []string{"load", "load", "eval"})}
		if r.Chance(2, 5) {
			// scenario: define and export in one package, import into another,
			// then redefine the source (the import is a snapshot)
			src, dst := PickStr(r, pkgNames), PickStr(r, pkgNames)
			n1, n2, fn := g.name(), g.name(), PickStr(r, funNames)
			fnDef := L(A("defun"), A(fn), L(), Call("list", g.val(), Call("sim:cur-pkg"), Call("ignore-errors", A(n1))))
			if r.Chance(1, 2) {
				// the function fails in a form that is not its last, on its first or second call
				g.fpN++
				fnDef = L(A("defun"), A(fn), L(), Call("sim:fp", I(g.fpN), I(0)), Call("list", g.val(), Call("sim:cur-pkg"), Call("ignore-errors", A(n1))))
				scenarioFaults = append(scenarioFaults, FaultSpec{FP: g.fpN, Hit: r.Range(1, 2), Kind: PickStr(r, []string{"error", "error", "panic"}), Cond: "sim-fault"})
			}
			steps := []*Node{
				Call("in-package", QS(src)),
				Call("set", QS(n1), g.val()),
				fnDef,
				Call("export", QS(n1), QS(fn)),
				Call("export", QS(n2)), // possibly unbound: a partial import
				Call("in-package", QS(dst)),
				Call("use-package", QS(src)),
				Call("set", QS(src+":"+n1), g.val()),
				Call("set", QS(n1), g.val()),
				L(A(fn)),
				L(A(src + ":" + fn)),
				Call("list", A(n1), A(src+":"+n1)),
				// change the exported binding in place, then import again (and into a new package)
				Call("progn", Call("in-package", QS(src)), Call("set!", A(n1), g.val()), Call("in-package", QS(dst))),
				Call("use-package", QS(src)),
				Call("list", A(n1), A(src+":"+n1)),
				Call("progn", Call("in-package", QS(PickStr(r, pkgNames))), Call("use-package", QS(src)), Call("list", Call("sim:cur-pkg"), Call("ignore-errors", A(n1)))),
				Call("ignore-errors", L(A(src+":"+fn))),
				Call("list", Call("sim:cur-pkg"), Call("ignore-errors", A(n1))),
			}
			// drop / reorder a few steps and put fault points on some
			for _, st := range steps {
				if r.Chance(1, 6) {
					continue
				}
				if r.Chance(1, 6) {
					g.fpN++
					st = Call("sim:fp", I(g.fpN), st)
				}
				if r.Chance(1, 5) {
					st = Call("ignore-errors", st)
				}
				op.Forms = append(op.Forms, g.probe(st))
			}
			if r.Chance(1, 3) {
				// the whole scenario inside a nested load that fails or not
				op.Forms = []*Node{g.probe(Call("ignore-errors", Call("load-string", Str(Src(op.Forms))))), g.probe(Call("sim:cur-pkg"))}
			}
		} else {
			nf := r.Range(1, 4)
			for j := 0; j < nf; j++ {
				op.Forms = append(op.Forms, g.probe(g.T(r.Range(1, 3))))
			}
		}
		c.Ops = append(c.Ops, op)
	}
	if g.fpN > 0 {
		na := r.Pick([]int{3, 5, 2})
		for i := 0; i < na; i++ {
			f := FaultSpec{FP: r.Range(1, g.fpN), Hit: r.Pick([]int{0, 8, 2}), Kind: "error", Cond: "sim-fault"}
			if r.Chance(1, 4) {
				f.Kind = "panic"
			}
			c.Faults = append(c.Faults, f)
		}
	}
	c.Faults = append(c.Faults, scenarioFaults...)
	return c
}

// ------------------------------------------------------------------- model

type pkind int

const (
	pNil pkind = iota
	pInt
	pStr
	pSym
	pBool
	pList
	pFun
)

type pval struct {
	k  pkind
	i  int
	s  string
	l  []pval
	fn *pfun
}

type pfun struct {
	pkg   string
	body  []*Node
	env   *penv
	macro bool
}

type penv struct {
	vars   map[string]pval
	parent *penv
}

func (v pval) render() string {
	switch v.k {
	case pNil:
		return "()"
	case pInt:
		return strconv.Itoa(v.i)
	case pStr:
		return strconv.Quote(v.s)
	case pSym:
		return v.s
	case pBool:
		return v.s
	case pList:
		if len(v.l) == 0 {
			return "()"
		}
		parts := make([]string, len(v.l))
		for i, x := range v.l {
			parts[i] = x.render()
		}
		return "(" + strings.Join(parts, " ") + ")"
	default:
		return "\x00"
	}
}

type ppkg struct {
	syms    map[string]pval
	exports []string
}

type perr struct {
	cond      string
	fromPanic bool
	model     bool // raised by a modelled rule: condition name is not compared
}

type pmodel struct {
	pkgs    map[string]*ppkg
	cur     string
	trace   []string
	faults  []FaultSpec
	fpHits  map[int]int
	stats   map[string]int
	created []string
}

func newPModel(faults []FaultSpec) *pmodel {
	return &pmodel{pkgs: map[string]*ppkg{"user": {syms: map[string]pval{}}, "lisp": {syms: map[string]pval{}}}, cur: "user", faults: faults, fpHits: map[int]int{}, stats: map[string]int{}}
}

func merr() *perr { return &perr{cond: "error", model: true} }

func quotedName(n *Node) (string, bool) {
	if n.IsL && len(n.List) == 2 && n.Head() == "quote" && !n.List[1].IsL {
		return n.List[1].Atom, true
	}
	return "", false
}

func (m *pmodel) lookup(name string, lex *penv) (pval, *perr) {
	if name == "true" || name == "false" {
		return pval{k: pBool, s: name}, nil
	}
	if strings.HasPrefix(name, ":") {
		return pval{k: pSym, s: name}, nil
	}
	if i := strings.IndexByte(name, ':'); i > 0 {
		p, ok := m.pkgs[name[:i]]
		if !ok {
			return pval{}, merr()
		}
		v, ok := p.syms[name[i+1:]]
		if !ok {
			return pval{}, merr()
		}
		return v, nil
	}
	for e := lex; e != nil; e = e.parent {
		if v, ok := e.vars[name]; ok {
			return v, nil
		}
	}
	if v, ok := m.pkgs[m.cur].syms[name]; ok {
		return v, nil
	}
	return pval{}, merr()
}

func (m *pmodel) seq(forms []*Node, lex *penv) (pval, *perr) {
	v := pval{}
	for _, f := range forms {
		var e *perr
		v, e = m.eval(f, lex)
		if e != nil {
			return pval{}, e
		}
	}
	return v, nil
}

// load evaluates forms in the root lexical environment and restores the
// current package afterwards, success or failure.
func (m *pmodel) load(forms []*Node) (pval, *perr) {
	saved := m.cur
	v, e := m.seq(forms, nil)
	m.cur = saved
	return v, e
}

func (m *pmodel) eval(n *Node, lex *penv) (pval, *perr) {
	if !n.IsL {
		if i, err := strconv.Atoi(n.Atom); err == nil {
			return pval{k: pInt, i: i}, nil
		}
		if strings.HasPrefix(n.Atom, "\"") {
			s, _ := strconv.Unquote(n.Atom)
			return pval{k: pStr, s: s}, nil
		}
		if strings.HasPrefix(n.Atom, "(") {
			// a shadow construct: the lexically bound function is the one called
			if sm := shadowRe.FindStringSubmatch(n.Atom); sm != nil {
				i, _ := strconv.Atoi(sm[1])
				return pval{k: pInt, i: i}, nil
			}
			return pval{}, merr()
		}
		return m.lookup(n.Atom, lex)
	}
	if len(n.List) == 0 {
		return pval{}, nil
	}
	head := n.Head()
	args := n.List[1:]
	switch head {
	case "quote":
		return pval{k: pSym, s: args[0].Atom}, nil
	case "sim:cur-pkg":
		return pval{k: pStr, s: m.cur}, nil
	case "sim:probe":
		v, e := m.eval(args[1], lex)
		if e != nil {
			return v, e
		}
		m.trace = append(m.trace, args[0].List[1].Atom+" "+v.render())
		return v, nil
	case "sim:fp":
		v, e := m.eval(args[1], lex)
		if e != nil {
			return v, e
		}
		id, _ := strconv.Atoi(args[0].Atom)
		m.fpHits[id]++
		for _, f := range m.faults {
			if f.FP == id && f.Hit == m.fpHits[id] {
				if f.Kind == "panic" {
					return pval{}, &perr{cond: "internal-panic", fromPanic: true}
				}
				return pval{}, &perr{cond: f.Cond}
			}
		}
		return v, nil
	case "list":
		out := pval{k: pList}
		for _, a := range args {
			v, e := m.eval(a, lex)
			if e != nil {
				return v, e
			}
			out.l = append(out.l, v)
		}
		return out, nil
	case "progn":
		return m.seq(args, lex)
	case "ignore-errors":
		v, e := m.seq(args, lex)
		if e != nil {
			if e.fromPanic {
				return pval{}, e
			}
			return pval{}, nil
		}
		return v, nil
	case "let":
		b := args[0].List[0]
		v, e := m.eval(b.List[1], lex)
		if e != nil {
			return v, e
		}
		name := b.List[0].Atom
		if name == "true" || name == "false" {
			m.stats["reach_constant_rebinding_refused"]++
			return pval{}, merr()
		}
		return m.seq(args[1:], &penv{vars: map[string]pval{name: v}, parent: lex})
	case "set":
		name, _ := quotedName(args[0])
		v, e := m.eval(args[1], lex)
		if e != nil {
			return v, e
		}
		if name == "true" || name == "false" {
			m.stats["reach_constant_rebinding_refused"]++
			return pval{}, merr()
		}
		if strings.HasPrefix(name, ":") {
			m.stats["reach_keyword_assignment_refused"]++
			return pval{}, merr()
		}
		if i := strings.IndexByte(name, ':'); i > 0 {
			p, ok := m.pkgs[name[:i]]
			if !ok {
				return pval{}, merr()
			}
			p.syms[name[i+1:]] = v
			m.stats["reach_qualified_write"]++
			return v, nil
		}
		m.pkgs[m.cur].syms[name] = v
		return v, nil
	case "set!":
		name := args[0].Atom
		v, e := m.eval(args[1], lex)
		if e != nil {
			return v, e
		}
		if name == "true" || name == "false" {
			return pval{}, merr()
		}
		for en := lex; en != nil; en = en.parent {
			if _, ok := en.vars[name]; ok {
				en.vars[name] = v
				return pval{}, nil
			}
		}
		if strings.Contains(name, ":") {
			return pval{}, merr()
		}
		if _, ok := m.pkgs[m.cur].syms[name]; !ok {
			return pval{}, merr()
		}
		m.pkgs[m.cur].syms[name] = v
		return pval{}, nil
	case "in-package":
		name, _ := quotedName(args[0])
		if _, ok := m.pkgs[name]; !ok {
			m.pkgs[name] = &ppkg{syms: map[string]pval{}}
			m.stats["reach_package_created"]++
			// a new package starts with the language package's exports as
			// they are now (a failing import is not reported by in-package)
			for _, x := range m.pkgs["lisp"].exports {
				v, ok := m.pkgs["lisp"].syms[x]
				if !ok {
					break
				}
				m.pkgs[name].syms[x] = v
				m.stats["reach_new_package_got_language_export"]++
			}
		}
		m.cur = name
		if len(args) > 1 {
			// only generated with a non-string documentation argument, and
			// always followed by the well-formed call (see the generator)
			m.stats["reach_in_package_refused"]++
			return pval{}, merr()
		}
		return pval{}, nil
	case "export":
		p := m.pkgs[m.cur]
		for _, a := range args {
			name, _ := quotedName(a)
			found := false
			for _, x := range p.exports {
				if x == name {
					found = true
				}
			}
			if !found {
				p.exports = append(p.exports, name)
			}
		}
		sort.Strings(p.exports)
		return pval{}, nil
	case "use-package":
		name, _ := quotedName(args[0])
		src, ok := m.pkgs[name]
		if !ok {
			return pval{}, merr()
		}
		for _, x := range src.exports {
			v, ok := src.syms[x]
			if !ok {
				m.stats["reach_partial_import_unbound_export"]++
				return pval{}, merr()
			}
			m.pkgs[m.cur].syms[x] = v
			m.stats["reach_binding_imported"]++
		}
		return pval{}, nil
	case "defun", "defmacro":
		f := &pfun{pkg: m.cur, body: args[2:], env: lex, macro: head == "defmacro"}
		m.pkgs[m.cur].syms[args[0].Atom] = pval{k: pFun, fn: f}
		return pval{}, nil
	case "funcall":
		// (funcall (lambda (v) body...) arg)
		lam := args[0]
		defPkg := m.cur // the lambda is created first, in the package current at that point
		av, e := m.eval(args[1], lex)
		if e != nil {
			return av, e
		}
		name := lam.List[1].List[0].Atom
		ne := &penv{vars: map[string]pval{}, parent: lex}
		if name != "true" && name != "false" {
			ne.vars[name] = av // a formal named after a constant binds nothing: the constant keeps its meaning
		} else {
			m.stats["reach_constant_named_formal"]++
		}
		// like every function, its body runs with its defining package current
		// (the package is switched, and switched back, only when it differs:
		// an in-package executed by a body running in its caller's own package
		// is an ordinary dynamic effect and stays)
		outer := m.cur
		if defPkg != outer {
			m.cur = defPkg
		}
		v, e := m.seq(lam.List[2:], ne)
		if defPkg != outer {
			m.cur = outer
		}
		return v, e
	case "load-string", "load-bytes":
		srcNode := args[0]
		if head == "load-bytes" {
			srcNode = args[0].List[1]
		}
		src, err := strconv.Unquote(srcNode.Atom)
		if err != nil {
			return pval{}, merr()
		}
		forms, perr2 := ParseNodes(src)
		if perr2 != nil {
			return pval{}, merr()
		}
		before := m.cur
		v, e := m.load(forms)
		if e != nil && before != "" {
			m.stats["reach_nested_load_failed"]++
		}
		return v, e
	}
	// a call: the head names a function or macro
	if len(n.List) == 1 && !n.List[0].IsL {
		fv, e := m.lookup(n.List[0].Atom, lex)
		if e != nil {
			return pval{}, e
		}
		if fv.k != pFun {
			return pval{}, merr()
		}
		f := fv.fn
		outer := m.cur
		if f.pkg != outer {
			m.stats["reach_cross_package_call"]++
		}
		if f.pkg != outer {
			m.cur = f.pkg
		}
		v, e := m.seq(f.body, f.env)
		if f.pkg != outer {
			m.cur = outer
		}
		if e != nil {
			if f.pkg != outer {
				m.stats["reach_cross_package_call_failed"]++
			}
			return pval{}, e
		}
		if f.macro {
			// the expansion is evaluated in the caller's scope and package
			switch v.k {
			case pSym:
				return m.lookup(v.s, lex)
			case pList:
				if len(v.l) == 0 {
					return pval{}, nil
				}
				return pval{}, merr() // a data list evaluated as code: its head is not a function
			default:
				return v, nil
			}
		}
		return v, nil
	}
	return pval{}, merr()
}

// ParseNodes parses a sequence of forms.
func ParseNodes(src string) ([]*Node, error) {
	p := &nodeParser{s: src}
	var out []*Node
	for {
		p.skip()
		if p.i >= len(p.s) {
			return out, nil
		}
		n, err := p.parse()
		if err != nil {
			return nil, err
		}
		out = append(out, n)
	}
}

// pkgValid keeps shrink candidates inside the model's grammar.
func pkgValid(n *Node) bool {
	if !n.IsL {
		return n.Atom != ""
	}
	if len(n.List) == 0 {
		return false
	}
	head := n.Head()
	args := n.List[1:]
	all := func(xs []*Node) bool {
		for _, x := range xs {
			if !pkgValid(x) {
				return false
			}
		}
		return true
	}
	q := func(x *Node) bool { _, ok := quotedName(x); return ok }
	switch head {
	case "quote":
		return len(args) == 1 && !args[0].IsL
	case "sim:cur-pkg":
		return len(args) == 0
	case "sim:probe":
		return len(args) == 2 && q(args[0]) && pkgValid(args[1])
	case "sim:fp":
		return len(args) == 2 && !args[0].IsL && pkgValid(args[1])
	case "list":
		return all(args)
	case "progn", "ignore-errors":
		return len(args) >= 1 && all(args)
	case "let":
		return len(args) >= 2 && args[0].IsL && len(args[0].List) == 1 && args[0].List[0].IsL && len(args[0].List[0].List) == 2 &&
			!args[0].List[0].List[0].IsL && pkgValid(args[0].List[0].List[1]) && all(args[1:]) &&
			!args[0].List[0].List[1].Contains("defun", "defmacro") && !args[0].List[0].List[1].ContainsSubstr("(defun ") && !args[0].List[0].List[1].ContainsSubstr("(defmacro ")
	case "set":
		return len(args) == 2 && q(args[0]) && pkgValid(args[1])
	case "set!":
		return len(args) == 2 && !args[0].IsL && pkgValid(args[1])
	case "in-package":
		return (len(args) == 1 || len(args) == 2 && !args[1].IsL && args[1].Atom == "42") && q(args[0])
	case "use-package":
		return len(args) == 1 && q(args[0])
	case "export":
		if len(args) < 1 {
			return false
		}
		for _, a := range args {
			if !q(a) {
				return false
			}
		}
		return true
	case "defun", "defmacro":
		return len(args) >= 3 && !args[0].IsL && args[1].IsL && len(args[1].List) == 0 && all(args[2:])
	case "funcall":
		if len(args) != 2 || !args[0].IsL || args[0].Head() != "lambda" || len(args[0].List) < 3 {
			return false
		}
		fl := args[0].List[1]
		return fl.IsL && len(fl.List) == 1 && !fl.List[0].IsL && all(args[0].List[2:]) && pkgValid(args[1])
	case "load-string", "load-bytes":
		if len(args) != 1 {
			return false
		}
		srcNode := args[0]
		if head == "load-bytes" {
			if !srcNode.IsL || len(srcNode.List) != 2 || srcNode.Head() != "to-bytes" {
				return false
			}
			srcNode = srcNode.List[1]
		}
		if srcNode.IsL {
			return false
		}
		src, err := strconv.Unquote(srcNode.Atom)
		if err != nil {
			return false
		}
		fs, err := ParseNodes(src)
		return err == nil && len(fs) > 0 && all(fs)
	}
	return len(n.List) == 1 && !n.List[0].IsL && head != ""
}

// -------------------------------------------------------------------- run

func pkgInspection() []*Node {
	var forms []*Node
	for _, p := range pkgNames {
		xs := []*Node{A("list"), Str(p)}
		for _, v := range varNames {
			xs = append(xs, Call("ignore-errors", A(p+":"+v)))
		}
		for _, f := range funNames {
			xs = append(xs, Call("ignore-errors", L(A(p+":"+f))))
		}
		for _, mm := range macNames {
			xs = append(xs, Call("ignore-errors", L(A(p+":"+mm))))
		}
		forms = append(forms, Call("sim:probe", QS("q"), L(xs...)))
		// the same names seen unqualified from inside p
		ys := []*Node{A("list"), Call("sim:cur-pkg")}
		for _, v := range varNames {
			ys = append(ys, Call("ignore-errors", A(v)))
		}
		for _, f := range funNames {
			ys = append(ys, Call("ignore-errors", L(A(f))))
		}
		for _, mm := range macNames {
			ys = append(ys, Call("ignore-errors", L(A(mm))))
		}
		ys = append(ys, A(":a0"), A("true"))
		forms = append(forms, Call("load-string", Str(Src([]*Node{Call("in-package", QS(p)), Call("sim:probe", QS("u"), L(ys...))}))))
	}
	{
		xs := []*Node{A("list"), Str("lisp")}
		for _, v := range varNames {
			xs = append(xs, Call("ignore-errors", A("lisp:"+v)))
		}
		for _, f := range funNames {
			xs = append(xs, Call("ignore-errors", L(A("lisp:"+f))))
		}
		forms = append(forms, Call("sim:probe", QS("q"), L(xs...)))
	}
	forms = append(forms, Call("sim:probe", QS("cur"), Call("sim:cur-pkg")))
	return forms
}

var pkgInspect = pkgInspection()

func (pkgEngine) Run(ci any, st *Stats) *Violation {
	c := ci.(*PkgCase)
	for _, op := range c.Ops {
		for _, f := range op.Forms {
			if !pkgValid(f) {
				return nil
			}
		}
	}
	k := c.Knobs
	k.MaxSteps = 300000
	w, err := NewWorld(k)
	if err != nil {
		return Violf("harness", "%v", err)
	}
	w.Faults = c.Faults
	m := newPModel(c.Faults)
	h := NewHash()
	anyErr := false
	for i, op := range c.Ops {
		evFrom := len(w.Events)
		trFrom := len(m.trace)
		var out Outcome
		var mv pval
		var me *perr
		if op.Entry == "eval" {
			for _, f := range op.Forms {
				e, perr2 := parseOne(f.String())
				if perr2 != nil {
					return nil
				}
				out = w.Call(func() *lisp.LVal { return w.Env.Eval(e) })
				if out.IsErr {
					break
				}
			}
			for _, f := range op.Forms {
				mv, me = m.eval(f, nil)
				if me != nil {
					break
				}
			}
		} else {
			out = w.Load(op.Forms)
			mv, me = m.load(op.Forms)
		}
		st.Runs++
		st.SimSteps += out.Steps
		fail := func(oracle, format string, a ...any) *Violation {
			return Violf(oracle, "op %d (%s): %s", i, op.Entry, fmt.Sprintf(format, a...))
		}
		if out.GoPanic != "" {
			return fail("go-panic-escaped", "%s", out.GoPanic)
		}
		// trace
		var rt []string
		for _, ev := range w.Events[evFrom:] {
			if ev.Tag != "fault" {
				rt = append(rt, ev.Tag+" "+stripQuotes(ev.Args))
			}
		}
		mt := m.trace[trFrom:]
		for j := 0; j < len(rt) || j < len(mt); j++ {
			var a, b string
			if j < len(rt) {
				a = rt[j]
			}
			if j < len(mt) {
				b = mt[j]
			}
			if !wildEq(a, b) {
				return fail("value-differs", "probe %d: interpreter [%s], model [%s]", j, a, b)
			}
		}
		if me == nil {
			if out.IsErr {
				return fail("value-differs", "interpreter raised %q, model gives %s", out.Result(), mv.render())
			}
			if !wildEq(stripQuotes(out.Value), mv.render()) {
				return fail("value-differs", "interpreter returned %s, model %s", stripQuotes(out.Value), mv.render())
			}
		} else {
			anyErr = true
			if !out.IsErr {
				return fail("value-differs", "interpreter returned %s, model raises an error (%s)", out.Value, me.cond)
			}
			if out.IsPanic != me.fromPanic || (!me.model && out.Cond != me.cond) {
				return fail("value-differs", "interpreter raised %s (host panic %v), model %s (host panic %v)", out.Cond, out.IsPanic, me.cond, me.fromPanic)
			}
		}
		if got := w.RT.Package.Name; got != m.cur {
			return fail("current-package-differs", "current package is %q after the operation, model says %q", got, m.cur)
		}
		h = h.Str(strings.Join(rt, ";")).Str(m.cur)

		// inspection: every name from every package, qualified and unqualified
		w.Faults = nil
		savedHits := w.fpHits
		evFrom = len(w.Events)
		io := w.Load(pkgInspect)
		w.Faults, w.fpHits = c.Faults, savedHits
		mf, mh := m.faults, m.fpHits
		m.faults = nil
		trFrom = len(m.trace)
		_, ie := m.load(pkgInspect)
		m.faults, m.fpHits = mf, mh
		st.Runs++
		if io.IsErr || ie != nil {
			return fail("inspection-failed", "inspection program: interpreter %q, model error %v", io.Result(), ie != nil)
		}
		rt = rt[:0]
		for _, ev := range w.Events[evFrom:] {
			rt = append(rt, ev.Tag+" "+stripQuotes(ev.Args))
		}
		mt = m.trace[trFrom:]
		if len(rt) != len(mt) {
			return fail("harness", "inspection produced %d lines, model %d", len(rt), len(mt))
		}
		for j := range rt {
			if !wildEq(rt[j], mt[j]) {
				return fail("registry-differs", "after the operation the registry shows [%s]; the model says [%s]", rt[j], mt[j])
			}
		}
		w.Events = w.Events[:evFrom]
		m.trace = m.trace[:trFrom]
		// export lists
		for _, p := range pkgNames {
			rp := w.RT.Registry.Package(p)
			mp := m.pkgs[p]
			if (rp == nil) != (mp == nil) {
				return fail("registry-differs", "package %s exists: interpreter %v, model %v", p, rp != nil, mp != nil)
			}
			if rp != nil && p != "user" {
				var user []string
				for _, x := range rp.Externals() {
					user = append(user, x)
				}
				if strings.Join(user, " ") != strings.Join(mp.exports, " ") {
					return fail("registry-differs", "package %s exports %v, model %v", p, user, mp.exports)
				}
			}
		}
		st.Inc("inspections_compared")
	}
	for k, v := range m.stats {
		st.Add(k, int64(v))
	}
	for _, f := range w.Fired {
		st.Inc("fault_fp_" + f + "_fired")
	}
	st.NoteHash(h, anyErr || len(w.Fired) > 0)
	return nil
}

func (pkgEngine) Shrink(ci any) []any {
	c := ci.(*PkgCase)
	var out []any
	cp := func() *PkgCase {
		d := *c
		d.Ops = append([]PkgOp(nil), c.Ops...)
		return &d
	}
	for i := range c.Ops {
		if len(c.Ops) > 1 {
			d := cp()
			d.Ops = append(d.Ops[:i:i], d.Ops[i+1:]...)
			out = append(out, d)
		}
	}
	for i := range c.Faults {
		d := cp()
		d.Faults = append(append([]FaultSpec(nil), c.Faults[:i]...), c.Faults[i+1:]...)
		out = append(out, d)
	}
	if c.Knobs != (Knobs{}) {
		d := cp()
		d.Knobs = Knobs{}
		out = append(out, d)
	}
	for i, op := range c.Ops {
		if op.Entry == "eval" {
			d := cp()
			d.Ops[i].Entry = "load"
			out = append(out, d)
		}
		for _, f := range ShrinkForms(op.Forms, 200) {
			d := cp()
			d.Ops[i].Forms = f
			out = append(out, d)
		}
	}
	return out
}
