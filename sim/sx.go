package sim

import (
	"encoding/json"
	"fmt"
	"strconv"
	"strings"
)

// Node is an s-expression tree: an atom (raw source text, e.g. `42`, `foo`,
// `"str"`, `'sym`) or a list of nodes.  Programs in a case are explicit data so
// that replay never depends on the generator.
type Node struct {
	Atom string
	List []*Node
	IsL  bool
}

func A(s string) *Node    { return &Node{Atom: s} }
func I(i int) *Node       { return &Node{Atom: strconv.Itoa(i)} }
func L(xs ...*Node) *Node { return &Node{List: xs, IsL: true} }
func Q(n *Node) *Node     { return L(A("quote"), n) }
func QS(sym string) *Node { return L(A("quote"), A(sym)) }
func Str(s string) *Node  { return A(LispString(s)) }
func Call(f string, xs ...*Node) *Node {
	return L(append([]*Node{A(f)}, xs...)...)
}

// LispString renders s as an ELPS string literal.
func LispString(s string) string {
	var b strings.Builder
	b.WriteByte('"')
	for i := 0; i < len(s); i++ {
		c := s[i]
		switch c {
		case '"':
			b.WriteString(`\"`)
		case '\\':
			b.WriteString(`\\`)
		case '\n':
			b.WriteString(`\n`)
		case '\t':
			b.WriteString(`\t`)
		default:
			b.WriteByte(c)
		}
	}
	b.WriteByte('"')
	return b.String()
}

func (n *Node) String() string {
	var b strings.Builder
	n.render(&b)
	return b.String()
}

func (n *Node) render(b *strings.Builder) {
	if !n.IsL {
		b.WriteString(n.Atom)
		return
	}
	b.WriteByte('(')
	for i, c := range n.List {
		if i > 0 {
			b.WriteByte(' ')
		}
		c.render(b)
	}
	b.WriteByte(')')
}

// Src renders a sequence of top-level forms.
func Src(forms []*Node) string {
	var b strings.Builder
	for i, f := range forms {
		if i > 0 {
			b.WriteByte('\n')
		}
		f.render(&b)
	}
	return b.String()
}

func (n *Node) Size() int {
	if !n.IsL {
		return 1
	}
	s := 1
	for _, c := range n.List {
		s += c.Size()
	}
	return s
}

func (n *Node) Clone() *Node {
	if !n.IsL {
		return &Node{Atom: n.Atom}
	}
	xs := make([]*Node, len(n.List))
	for i, c := range n.List {
		xs[i] = c.Clone()
	}
	return &Node{List: xs, IsL: true}
}

func (n *Node) MarshalJSON() ([]byte, error) {
	if !n.IsL {
		return json.Marshal(n.Atom)
	}
	if n.List == nil {
		return []byte("[]"), nil
	}
	return json.Marshal(n.List)
}

func (n *Node) UnmarshalJSON(b []byte) error {
	s := strings.TrimSpace(string(b))
	if len(s) == 0 {
		return fmt.Errorf("empty node")
	}
	if s[0] == '"' {
		n.IsL = false
		return json.Unmarshal(b, &n.Atom)
	}
	if s[0] == '[' {
		n.IsL = true
		var xs []*Node
		if err := json.Unmarshal(b, &xs); err != nil {
			return err
		}
		n.List = xs
		return nil
	}
	return fmt.Errorf("bad node json: %s", s)
}

// Head returns the operator name of a list node, or "".
func (n *Node) Head() string {
	if n.IsL && len(n.List) > 0 && !n.List[0].IsL {
		return n.List[0].Atom
	}
	return ""
}

// Contains reports whether any atom in the tree equals one of names.
func (n *Node) Contains(names ...string) bool {
	if !n.IsL {
		for _, s := range names {
			if n.Atom == s {
				return true
			}
		}
		return false
	}
	for _, c := range n.List {
		if c.Contains(names...) {
			return true
		}
	}
	return false
}

// ContainsPrefix reports whether any atom has the given prefix.
func (n *Node) ContainsPrefix(p string) bool {
	if !n.IsL {
		return strings.HasPrefix(n.Atom, p)
	}
	for _, c := range n.List {
		if c.ContainsPrefix(p) {
			return true
		}
	}
	return false
}

// path-addressed edits for shrinking.

type nodePath []int

func (n *Node) at(p nodePath) *Node {
	cur := n
	for _, i := range p {
		cur = cur.List[i]
	}
	return cur
}

// replaceAt returns a copy of n with the node at p replaced by r.
func (n *Node) replaceAt(p nodePath, r *Node) *Node {
	if len(p) == 0 {
		return r
	}
	cp := &Node{IsL: true, List: make([]*Node, len(n.List))}
	copy(cp.List, n.List)
	cp.List[p[0]] = n.List[p[0]].replaceAt(p[1:], r)
	return cp
}

// removeAt returns a copy of n with the list element at p removed.
func (n *Node) removeAt(p nodePath) *Node {
	if len(p) == 1 {
		cp := &Node{IsL: true}
		cp.List = append(cp.List, n.List[:p[0]]...)
		cp.List = append(cp.List, n.List[p[0]+1:]...)
		return cp
	}
	cp := &Node{IsL: true, List: make([]*Node, len(n.List))}
	copy(cp.List, n.List)
	cp.List[p[0]] = n.List[p[0]].removeAt(p[1:])
	return cp
}

// allPaths lists paths to every list-typed descendant (pre-order, root is
// the empty path), larger subtrees first is not guaranteed.
func (n *Node) allPaths(prefix nodePath, out *[]nodePath) {
	p := append(nodePath(nil), prefix...)
	*out = append(*out, p)
	if n.IsL {
		for i, c := range n.List {
			c.allPaths(append(prefix, i), out)
		}
	}
}

// ShrinkForms yields candidate reductions of a program (list of top-level
// forms): drop a form, replace a sub-list by one of its children, by `0` or
// `()`, or drop a non-head list element.  Candidates are ordered big-cut
// first.  The candidate count is capped so that one round is bounded.
func ShrinkForms(forms []*Node, cap int) [][]*Node {
	var out [][]*Node
	add := func(f []*Node) bool {
		out = append(out, f)
		return len(out) < cap
	}
	// drop a form
	for i := range forms {
		if len(forms) > 1 {
			c := append(append([]*Node(nil), forms[:i]...), forms[i+1:]...)
			if !add(c) {
				return out
			}
		}
	}
	for i, f := range forms {
		var paths []nodePath
		f.allPaths(nil, &paths)
		for _, p := range paths {
			sub := f.at(p)
			if !sub.IsL {
				continue
			}
			repl := func(r *Node) bool {
				c := append([]*Node(nil), forms...)
				c[i] = f.replaceAt(p, r)
				return add(c)
			}
			// replace by child
			for _, ch := range sub.List[min(1, len(sub.List)):] {
				if !repl(ch) {
					return out
				}
			}
			if len(p) > 0 {
				if !repl(A("0")) {
					return out
				}
			}
			// drop element (not head)
			for j := len(sub.List) - 1; j >= 1; j-- {
				c := append([]*Node(nil), forms...)
				c[i] = f.removeAt(append(append(nodePath(nil), p...), j))
				if !add(c) {
					return out
				}
			}
		}
	}
	return out
}

// ContainsSubstr reports whether any atom contains sub (this also looks inside
// string literals, e.g. the source text of a nested load-string).
func (n *Node) ContainsSubstr(sub string) bool {
	if !n.IsL {
		return strings.Contains(n.Atom, sub)
	}
	for _, c := range n.List {
		if c.ContainsSubstr(sub) {
			return true
		}
	}
	return false
}
