package sim

import "fmt"

// GenOpts selects the constructs the general program generator may use.
type GenOpts struct {
	Swallow   bool // handler-bind / ignore-errors
	Errors    bool // (error ...) and ill-typed forms
	LoadStr   bool // nested load-string
	Macros    bool
	FP        bool // cooperative fault points (sim:fp)
	Stderr    bool // debug-print
	Callbacks bool // map / foldl / stable-sort / select with lisp callbacks
	Packages  bool // definitions in a second package, cross-package calls
	Budget    int  // node budget for the whole program
	MaxFuel   int  // recursion / loop fuel
	Probes    int  // per-mille probability of wrapping an expression in a probe
}

type funSig struct {
	name string
	kind string // "tail", "rec", "mutual", "helper", "rest", "opt"
}

// PGen is the state of one program generation.
type PGen struct {
	r      *Rand
	o      GenOpts
	vars   []string
	lvars  []string
	funs   []funSig
	macros []string
	globs  []string
	probeN int
	fpN    int
	symN   int
	budget int
	inFun  bool

	// StateOp, when set, lets S() emit acknowledged state operations (E2).
	StateOp func(g *PGen) *Node
	CurPkg  string   // package the generated code will run in
	Pkgs    []string // extra packages nested loads may switch to
}

func NewPGen(r *Rand, o GenOpts) *PGen {
	if o.Budget == 0 {
		o.Budget = 120
	}
	if o.MaxFuel == 0 {
		o.MaxFuel = 5
	}
	if o.Probes == 0 {
		o.Probes = 120
	}
	return &PGen{r: r, o: o, budget: o.Budget}
}

func (g *PGen) sym(p string) string { g.symN++; return fmt.Sprintf("%s%d", p, g.symN) }

func (g *PGen) probeTag() *Node { g.probeN++; return QS(fmt.Sprintf("p%d", g.probeN)) }

// Probe wraps e in an effect probe.
func (g *PGen) Probe(e *Node) *Node { return Call("sim:probe", g.probeTag(), e) }

func (g *PGen) maybeProbe(e *Node) *Node {
	if g.r.Intn(1000) < g.o.Probes {
		return g.Probe(e)
	}
	if g.o.FP && g.r.Intn(1000) < 60 {
		g.fpN++
		switch g.r.Pick([]int{6, 3, 1, 1, 1, 1}) {
		case 1:
			return Call("sim:fpo", I(g.fpN), e) // host-registered special operator
		// the host builtin reached through a builtin that re-enters the
		// evaluator (a Go panic then unwinds through that builtin's own call
		// into the interpreter before any evaluation recovers it)
		case 2:
			return Call("funcall", A("sim:fp"), I(g.fpN), e)
		case 3:
			return Call("funcall", QS("sim:fp"), I(g.fpN), e)
		case 4:
			return Call("apply", A("sim:fp"), I(g.fpN), Call("list", e))
		case 5:
			return Call("foldl", A("sim:fp"), I(g.fpN), Call("list", e))
		}
		return Call("sim:fp", I(g.fpN), e)
	}
	return e
}

func (g *PGen) lit() *Node { return I(g.r.Range(-3, 9)) }

func (g *PGen) atomE() *Node {
	n := len(g.vars) + len(g.globs)
	if n > 0 && g.r.Chance(2, 3) {
		k := g.r.Intn(n)
		if k < len(g.vars) {
			return A(g.vars[k])
		}
		return A(g.globs[k-len(g.vars)])
	}
	return g.lit()
}

func (g *PGen) withVar(v string, f func() *Node) *Node {
	g.vars = append(g.vars, v)
	n := f()
	g.vars = g.vars[:len(g.vars)-1]
	return n
}

func (g *PGen) withLVar(v string, f func() *Node) *Node {
	g.lvars = append(g.lvars, v)
	n := f()
	g.lvars = g.lvars[:len(g.lvars)-1]
	return n
}

// C generates a boolean-valued expression.
func (g *PGen) C(d int) *Node {
	g.budget--
	if d <= 0 || g.budget <= 0 {
		return PickNode(g.r, A("true"), A("false"), Call("<", g.atomE(), g.atomE()))
	}
	switch g.r.Pick([]int{5, 3, 2, 2, 2, 1, 1}) {
	case 0:
		return Call(PickStr(g.r, []string{"<", "<=", ">", ">=", "="}), g.E(d-1), g.E(d-1))
	case 1:
		return Call("not", g.C(d-1))
	case 2:
		return Call("and", g.C(d-1), g.C(d-1))
	case 3:
		return Call("or", g.C(d-1), g.C(d-1))
	case 4:
		return Call("nil?", g.Lx(d-1))
	case 5:
		return A("true")
	default:
		return Call("equal?", g.E(d-1), g.E(d-1))
	}
}

func PickNode(r *Rand, xs ...*Node) *Node { return xs[r.Intn(len(xs))] }

// S is an expression evaluated for effect.
func (g *PGen) S(d int) *Node {
	if g.StateOp != nil && g.r.Chance(1, 2) {
		return g.StateOp(g)
	}
	if len(g.globs) > 0 && g.r.Chance(1, 4) {
		gl := PickStr(g.r, g.globs)
		if g.r.Bool() {
			return Call("set", QS(gl), g.E(d-1))
		}
		return Call("set!", A(gl), g.E(d-1))
	}
	if g.o.Stderr && g.r.Chance(1, 6) {
		if g.r.Chance(1, 4) {
			return Call("debug-stack")
		}
		return Call("debug-print", g.E(d-1))
	}
	return g.Probe(g.E(d - 1))
}

// E generates an int-valued expression (mostly: ill-typed forms appear at a
// low rate when Errors is on).
func (g *PGen) E(d int) *Node {
	g.budget--
	if d <= 0 || g.budget <= 0 {
		return g.atomE()
	}
	return g.maybeProbe(g.e1(d))
}

func (g *PGen) e1(d int) *Node {
	w := []int{
		10, // 0 arithmetic
		6,  // 1 if
		6,  // 2 let
		3,  // 3 let*
		4,  // 4 progn
		3,  // 5 cond
		4,  // 6 funcall lambda
		2,  // 7 apply
		8,  // 8 call defined fun
		3,  // 9 dotimes
		2,  // 10 flet
		2,  // 11 labels tail loop
		2,  // 12 thread-first
		2,  // 13 and/or value
		3,  // 14 list -> int
		0,  // 15 swallow
		0,  // 16 error
		0,  // 17 load-string
		0,  // 18 macro call
		0,  // 19 callbacks
		1,  // 20 expr lambda
		1,  // 21 closure counter
		2,  // 22 Go-implemented macros (get-default, curry-function)
	}
	if g.o.Swallow {
		w[15] = 5
	}
	if g.o.Errors {
		w[16] = 2
	}
	if g.o.LoadStr {
		w[17] = 3
	}
	if g.o.Macros && len(g.macros) > 0 {
		w[18] = 5
	}
	if g.o.Callbacks {
		w[19] = 5
	}
	if len(g.funs) == 0 {
		w[8] = 0
	}
	switch g.r.Pick(w) {
	case 0:
		op := PickStr(g.r, []string{"+", "+", "-", "*", "max", "min"})
		if g.r.Chance(1, 5) {
			return Call(op, g.E(d-1), g.E(d-1), g.E(d-1))
		}
		return Call(op, g.E(d-1), g.E(d-1))
	case 1:
		return Call("if", g.C(d-1), g.E(d-1), g.E(d-1))
	case 2:
		v := g.sym("x")
		init := g.E(d - 1)
		if g.r.Chance(1, 3) {
			v2 := g.sym("y")
			init2 := g.E(d - 1)
			body := g.withVar(v, func() *Node { return g.withVar(v2, func() *Node { return g.body(d - 1) }) })
			return L(A("let"), L(L(A(v), init), L(A(v2), init2)), body)
		}
		body := g.withVar(v, func() *Node { return g.body(d - 1) })
		return L(A("let"), L(L(A(v), init)), body)
	case 3:
		v, v2 := g.sym("x"), g.sym("y")
		init := g.E(d - 1)
		init2 := g.withVar(v, func() *Node { return g.E(d - 1) })
		body := g.withVar(v, func() *Node { return g.withVar(v2, func() *Node { return g.body(d - 1) }) })
		return L(A("let*"), L(L(A(v), init), L(A(v2), init2)), body)
	case 4:
		return g.body(d)
	case 5:
		return Call("cond", L(g.C(d-1), g.E(d-1)), L(g.C(d-1), g.E(d-1)), L(A(":else"), g.E(d-1)))
	case 6:
		v := g.sym("a")
		body := g.withVar(v, func() *Node { return g.E(d - 1) })
		return Call("funcall", L(A("lambda"), L(A(v)), body), g.E(d-1))
	case 7:
		v := g.sym("a")
		body := g.withVar(v, func() *Node { return g.E(d - 1) })
		return Call("apply", L(A("lambda"), L(A(v)), body), Call("list", g.E(d-1)))
	case 8:
		return g.callFun(d)
	case 9:
		// dotimes, with or without a body, value discarded
		i := g.sym("i")
		n := g.r.Range(0, g.o.MaxFuel)
		var loop *Node
		if g.r.Chance(1, 4) {
			loop = L(A("dotimes"), L(A(i), I(n)))
		} else {
			st := g.withVar(i, func() *Node { return g.S(d - 1) })
			loop = L(A("dotimes"), L(A(i), I(n)), st)
		}
		return Call("progn", loop, g.E(d-1))
	case 10:
		h := g.sym("h")
		a := g.sym("a")
		fb := g.withVar(a, func() *Node { return g.E(d - 1) })
		return L(A("flet"), L(L(A(h), L(A(a)), fb)), Call(h, g.E(d-1)))
	case 11:
		h := g.sym("lp")
		n := g.r.Range(0, g.o.MaxFuel)
		var step *Node
		step = g.withVar("acc", func() *Node { return g.E(d - 2) })
		tail := g.tailWrap(Call(h, Call("-", A("n"), I(1)), Call("+", A("acc"), step)), d)
		return L(A("labels"), L(L(A(h), L(A("n"), A("acc")),
			Call("if", Call("<=", A("n"), I(0)), A("acc"), tail))),
			Call(h, I(n), g.E(d-1)))
	case 12:
		return Call(PickStr(g.r, []string{"thread-first", "thread-last"}), g.E(d-1), L(A("+"), g.E(d-1)), L(A("*"), I(g.r.Range(1, 3))))
	case 13:
		if g.r.Bool() {
			return Call("or", Call("and", g.C(d-1), g.E(d-1)), g.E(d-1))
		}
		return Call("and", g.C(d-1).orTrue(), g.E(d-1))
	case 14:
		if g.r.Bool() {
			return Call("length", g.Lx(d-1))
		}
		return Call("foldl", A("+"), I(0), g.Lx(d-1))
	case 15:
		return g.swallow(d)
	case 16:
		return g.errForm(d)
	case 17:
		return g.loadString(d)
	case 18:
		m := PickStr(g.r, g.macros)
		switch m[0] {
		case 'i': // identity macro: its own frame is the deepest thing it pushes
			return Call(m, g.E(d-1))
		case 'w': // re-expanding macro (n x)
			return Call(m, I(g.r.Range(0, 4)), g.E(d-1))
		case 'c': // counting macro (n)
			return Call(m, I(g.r.Range(0, 4)))
		default:
			return Call(m, g.E(d-1))
		}
	case 19:
		return g.callback(d)
	case 22:
		if g.r.Bool() {
			return Call("get-default", Call("sorted-map", QS("k"), g.E(d-1)), QS(PickStr(g.r, []string{"k", "missing"})), g.E(d-1))
		}
		return Call("funcall", Call("curry-function", A("+"), g.E(d-1)), g.E(d-1))
	case 20:
		return Call("funcall", Call("expr", Call("+", A("%"), g.E(d-1))), g.E(d-1))
	default:
		// closure sharing a binding with an assignment
		c := g.sym("c")
		return L(A("let"), L(L(A(c), g.E(d-1))),
			Call("funcall", L(A("lambda"), L(), Call("set!", A(c), Call("+", A(c), I(1))))),
			A(c))
	}
}

func (n *Node) orTrue() *Node { return Call("or", n, A("true")) }

// body is a progn-like sequence ending in an int expression.  It is returned
// as a single (progn ...) node.
func (g *PGen) body(d int) *Node {
	k := g.r.Range(0, 2)
	xs := []*Node{A("progn")}
	for i := 0; i < k; i++ {
		xs = append(xs, g.S(d-1))
	}
	xs = append(xs, g.E(d-1))
	return L(xs...)
}

// Lx generates a list-valued expression.
func (g *PGen) Lx(d int) *Node {
	g.budget--
	if len(g.lvars) > 0 && g.r.Chance(1, 3) {
		return A(PickStr(g.r, g.lvars))
	}
	if d <= 0 || g.budget <= 0 {
		return PickNode(g.r, Q(L(I(1), I(2), I(3))), Call("list", g.atomE(), g.atomE()), Q(L()))
	}
	switch g.r.Pick([]int{4, 3, 2, 2, 2, 2, 1}) {
	case 0:
		return Call("list", g.E(d-1), g.E(d-1))
	case 1:
		n := g.r.Range(0, 4)
		xs := make([]*Node, n)
		for i := range xs {
			xs[i] = g.lit()
		}
		return Q(L(xs...))
	case 2:
		return Call("cons", g.E(d-1), g.Lx(d-1))
	case 3:
		v := g.sym("e")
		f := g.withVar(v, func() *Node { return g.E(d - 1) })
		return Call("map", QS("list"), L(A("lambda"), L(A(v)), f), g.Lx(d-1))
	case 4:
		return Call("reverse", QS("list"), g.Lx(d-1))
	case 5:
		return Call("append", QS("list"), g.Lx(d-1), g.E(d-1))
	default:
		return Call("make-sequence", I(0), I(g.r.Range(0, 4)))
	}
}

func (g *PGen) callback(d int) *Node {
	v := g.sym("e")
	switch g.r.Intn(4) {
	case 0:
		f := g.withVar(v, func() *Node { return g.E(d - 1) })
		return Call("length", Call("map", QS("vector"), L(A("lambda"), L(A(v)), f), g.Lx(d-1)))
	case 1:
		a, b := g.sym("a"), g.sym("b")
		f := g.withVar(a, func() *Node { return g.withVar(b, func() *Node { return g.E(d - 1) }) })
		return Call("foldl", L(A("lambda"), L(A(a), A(b)), f), g.E(d-1), g.Lx(d-1))
	case 2:
		a, b := g.sym("a"), g.sym("b")
		// comparator with an effect inside
		cmp := L(A("lambda"), L(A(a), A(b)), Call("<", g.Probe(A(a)), A(b)))
		return Call("length", Call("stable-sort", cmp, g.Lx(d-1)))
	default:
		p := g.withVar(v, func() *Node { return g.C(d - 1) })
		return Call("length", Call("select", QS("list"), L(A("lambda"), L(A(v)), p), g.Lx(d-1)))
	}
}

var condNames = []string{"e1", "e2", "my-error", "condition"}

func (g *PGen) swallow(d int) *Node {
	if g.o.FP && g.r.Chance(1, 6) {
		// the handler is a host builtin, itself a fault point (91 / 92)
		return L(A("handler-bind"), L(L(A(PickStr(g.r, condNames)), A(PickStr(g.r, []string{"sim:hf1", "sim:hf2"})))), g.mayFail(d-1))
	}
	switch g.r.Intn(4) {
	case 0:
		return Call("or", Call("ignore-errors", g.mayFail(d-1)), g.E(d-1))
	case 1:
		c := g.sym("c")
		h := L(A("lambda"), L(A(c), A("&rest"), A("dd")), g.E(d-1))
		return L(A("handler-bind"), L(L(A("condition"), h)), g.mayFail(d-1))
	case 2:
		c := g.sym("c")
		h := L(A("lambda"), L(A(c), A("&rest"), A("dd")), g.Probe(g.E(d-1)))
		return L(A("handler-bind"), L(L(A(PickStr(g.r, condNames)), h)), g.mayFail(d-1))
	default:
		// handler that rethrows, swallowed further out
		c := g.sym("c")
		h := L(A("lambda"), L(A(c), A("&rest"), A("dd")), Call("progn", g.S(d-1), Call("rethrow")))
		return Call("or", Call("ignore-errors", L(A("handler-bind"), L(L(A("condition"), h)), g.mayFail(d-1))), g.E(d-1))
	}
}

// mayFail is an int expression that contains an error-raising path.
func (g *PGen) mayFail(d int) *Node {
	if g.r.Chance(1, 3) {
		return g.E(d)
	}
	e := Call("error", QS(PickStr(g.r, condNames[:3])), g.E(d-1))
	switch g.r.Intn(4) {
	case 0:
		return Call("progn", g.S(d-1), e)
	case 1:
		return Call("if", g.C(d-1), e, g.E(d-1))
	case 2:
		return Call("+", g.E(d-1), e, g.Probe(g.E(d-1)))
	default:
		return Call("progn", e, g.Probe(g.E(d-1)))
	}
}

func (g *PGen) errForm(d int) *Node {
	switch g.r.Intn(6) {
	case 4:
		// the call is refused while its arguments are being bound: a builtin
		// function, special operator, builtin macro or lambda given the wrong
		// number of arguments or a malformed keyword list
		e := g.E(d - 1)
		return PickNode(g.r,
			Call("car"), Call("car", e, I(2)), Call("cons", e), Call("nth", Q(L(I(1))), I(0), e),
			Call("if"), Call("if", e), Call("quote"), Call("let"), Call("lambda"),
			Call("defun"), Call("thread-first"),
			L(L(A("lambda"), L(A("a")), A("a"))), L(L(A("lambda"), L(A("a")), A("a")), e, e),
			L(L(A("lambda"), L(A("&key"), A("k")), A("k")), A(":zz"), e),
			Call("get-default", e), Call("sorted-map", A(":a")))
	case 5:
		return Call("funcall", A("'car"), g.E(d-1), g.E(d-1)) // refused binding reached through funcall

	case 0:
		return Call("if", g.C(d-1), g.E(d-1), Call("error", QS(PickStr(g.r, condNames[:3])), g.E(d-1)))
	case 1:
		return Call("+", g.E(d-1), Q(L())) // ill-typed
	case 2:
		return Call("car", g.E(d-1)) // ill-typed
	default:
		return Call(g.sym("undefined-fn"), g.E(d-1))
	}
}

func (g *PGen) loadString(d int) *Node {
	if g.r.Chance(1, 8) {
		// a nested load of nothing
		return Call("progn", Call("load-string", Str(PickStr(g.r, []string{"", "; nothing", "  "}))), g.E(d-1))
	}
	// the nested source sees only globals
	saveV, saveL, saveG, saveP, saveF, saveM := g.vars, g.lvars, g.globs, g.CurPkg, g.funs, g.macros
	g.vars, g.lvars = nil, nil
	var forms []*Node
	if g.o.Packages && len(g.Pkgs) > 0 && g.r.Chance(1, 2) {
		g.CurPkg = PickStr(g.r, g.Pkgs)
		g.globs, g.funs, g.macros = nil, nil, nil // unqualified names of the outer package are not visible
		forms = append(forms, Call("in-package", QS(g.CurPkg)))
	}
	k := g.r.Range(1, 2)
	for i := 0; i < k; i++ {
		if g.StateOp != nil && g.r.Chance(1, 2) {
			forms = append(forms, g.StateOp(g))
		}
		forms = append(forms, g.Probe(g.E(d-1)))
	}
	g.vars, g.lvars, g.globs, g.CurPkg, g.funs, g.macros = saveV, saveL, saveG, saveP, saveF, saveM
	return Call("load-string", Str(Src(forms)))
}

func (g *PGen) callFun(d int) *Node {
	f := g.funs[g.r.Intn(len(g.funs))]
	fuel := g.r.Range(0, g.o.MaxFuel)
	switch f.kind {
	case "nullary":
		return Call(f.name)
	case "tail", "mutual":
		if g.r.Chance(1, 6) {
			fuel *= 4
		}
		return Call(f.name, I(fuel), g.E(d-1))
	case "rec":
		return Call(f.name, I(fuel))
	case "rest":
		return Call(f.name, g.E(d-1), g.E(d-1), g.E(d-1))
	case "opt":
		switch g.r.Intn(3) {
		case 0:
			return Call(f.name, g.E(d-1))
		case 1:
			return Call(f.name, g.E(d-1), g.E(d-1))
		default:
			return Call(f.name, g.E(d-1), g.E(d-1), A(":k"), g.E(d-1))
		}
	default:
		return Call(f.name, g.E(d-1), g.E(d-1))
	}
}

// tailWrap nests a tail call inside forms that keep it in tail position.
func (g *PGen) tailWrap(call *Node, d int) *Node {
	n := g.r.Range(0, 2)
	cur := call
	for i := 0; i < n; i++ {
		switch g.r.Intn(9) {
		case 0:
			cur = Call("progn", g.Probe(A("n")), cur)
		case 1:
			cur = L(A("let"), L(L(A(g.sym("t")), I(1))), cur)
		case 2:
			cur = Call("cond", L(Call("<", A("n"), I(-5)), I(0)), L(A(":else"), cur))
		case 3:
			cur = Call("if", Call(">", A("n"), I(-1)), cur, I(0))
		case 4:
			cur = L(A("let*"), L(L(A(g.sym("t")), A("n"))), cur)
		case 5:
			cur = Call("or", A("false"), cur)
		case 6:
			cur = Call("and", A("true"), cur)
		case 7:
			h := g.sym("h")
			cur = L(A("flet"), L(L(A(h), L(), I(0))), cur)
		default:
			cur = Call("progn", cur)
		}
	}
	return cur
}

// Defs generates top-level definitions and records them for later calls.
func (g *PGen) Defs(d int) []*Node {
	var out []*Node
	ng := g.r.Range(0, 2)
	for i := 0; i < ng; i++ {
		name := g.sym("gv")
		out = append(out, Call("set", QS(name), g.lit()))
		g.globs = append(g.globs, name)
	}
	nf := g.r.Range(0, 3)
	g.inFun = true
	for i := 0; i < nf; i++ {
		switch g.r.Pick([]int{4, 3, 2, 2, 1, 1}) {
		case 0:
			name := g.sym("t")
			g.vars = []string{"n", "acc"}
			step := g.E(d - 2)
			tail := g.tailWrap(Call(name, Call("-", A("n"), I(1)), Call("+", A("acc"), step)), d)
			g.vars = nil
			out = append(out, L(A("defun"), A(name), L(A("n"), A("acc")),
				Call("if", Call("<=", A("n"), I(0)), A("acc"), tail)))
			g.funs = append(g.funs, funSig{name, "tail"})
		case 1:
			name := g.sym("r")
			g.vars = []string{"n"}
			step := g.E(d - 2)
			g.vars = nil
			out = append(out, L(A("defun"), A(name), L(A("n")),
				Call("if", Call("<=", A("n"), I(0)), g.lit(), Call("+", step, Call(name, Call("-", A("n"), I(1)))))))
			g.funs = append(g.funs, funSig{name, "rec"})
		case 2:
			a, b := g.sym("ev"), g.sym("od")
			out = append(out,
				L(A("defun"), A(a), L(A("n"), A("acc")), Call("if", Call("<=", A("n"), I(0)), A("acc"),
					g.tailWrap(Call(b, Call("-", A("n"), I(1)), Call("+", A("acc"), I(1))), d))),
				L(A("defun"), A(b), L(A("n"), A("acc")), Call("if", Call("<=", A("n"), I(0)), A("acc"),
					Call(a, Call("-", A("n"), I(1)), g.Probe(Call("+", A("acc"), I(2)))))))
			g.funs = append(g.funs, funSig{a, "mutual"})
		case 3:
			name := g.sym("h")
			g.vars = []string{"a", "b"}
			body := g.E(d - 1)
			g.vars = nil
			out = append(out, L(A("defun"), A(name), L(A("a"), A("b")), body))
			g.funs = append(g.funs, funSig{name, "helper"})
		case 4:
			name := g.sym("v")
			out = append(out, L(A("defun"), A(name), L(A("&rest"), A("xs")), Call("+", Call("length", A("xs")), Call("foldl", A("+"), I(0), A("xs")))))
			g.funs = append(g.funs, funSig{name, "rest"})
		default:
			name := g.sym("o")
			out = append(out, L(A("defun"), A(name), L(A("a"), A("&optional"), A("b"), A("&key"), A("k")),
				Call("+", A("a"), Call("or", A("b"), I(10)), Call("or", A("k"), I(100)))))
			g.funs = append(g.funs, funSig{name, "opt"})
		}
	}
	g.inFun = false
	if g.o.Macros {
		nm := g.r.Range(0, 2)
		for i := 0; i < nm; i++ {
			switch g.r.Intn(4) {
			case 3:
				name := g.sym("i")
				out = append(out, L(A("defmacro"), A(name), L(A("x")), A("x")))
				g.macros = append(g.macros, name)
			case 0:
				name := g.sym("m")
				out = append(out, L(A("defmacro"), A(name), L(A("x")),
					Call("quasiquote", Call("+", I(g.r.Range(1, 3)), Call("unquote", A("x"))))))
				g.macros = append(g.macros, name)
			case 1:
				name := g.sym("w")
				out = append(out, L(A("defmacro"), A(name), L(A("n"), A("x")),
					Call("if", Call("<=", A("n"), I(0)), A("x"),
						Call("quasiquote", Call(name, Call("unquote", Call("-", A("n"), I(1))), Call("+", I(1), Call("unquote", A("x"))))))))
				g.macros = append(g.macros, name)
			default:
				name := g.sym("c")
				out = append(out, L(A("defmacro"), A(name), L(A("n")),
					Call("if", Call("<=", A("n"), I(0)), I(0),
						Call("quasiquote", Call("+", I(1), Call(name, Call("unquote", Call("-", A("n"), I(1)))))))))
				g.macros = append(g.macros, name)
			}
		}
	}
	return out
}

// Program generates a whole program: definitions followed by 1-3 probed main
// forms.
func (g *PGen) Program(d int) []*Node {
	forms := g.Defs(d)
	n := g.r.Range(1, 3)
	for i := 0; i < n; i++ {
		forms = append(forms, g.Probe(g.E(d)))
	}
	return forms
}
