package sim

import (
	"bytes"
	"context"
	"errors"
	"fmt"
	"strings"
	"time"

	"github.com/luthersystems/elps/elpsutil"
	"github.com/luthersystems/elps/lisp"
	"github.com/luthersystems/elps/lisp/lisplib"
	"github.com/luthersystems/elps/lisp/lisplib/libtime"
	"github.com/luthersystems/elps/parser"
)

// Knobs is the static configuration of one simulated runtime.  0 means "leave
// the interpreter's default" for every limit.
type Knobs struct {
	Stdlib    bool   `json:"stdlib"`
	TimeLib   bool   `json:"timelib,omitempty"` // load only the time package
	TRO       string `json:"tro,omitempty"`     // "" (elimination on), "debugger" (dormant debugger: off), "profiler"
	MaxSteps  int64  `json:"max_steps,omitempty"`
	MaxAlloc  int    `json:"max_alloc,omitempty"`
	MaxPhys   int    `json:"max_phys,omitempty"`
	MaxNest   int    `json:"max_nest,omitempty"`
	MaxTail   int    `json:"max_tail,omitempty"`
	MaxMacro  int    `json:"max_macro,omitempty"`
	MaxLogic  int    `json:"max_logical,omitempty"`
	HandBuilt bool   `json:"hand_built,omitempty"` // the Runtime is a composite literal handed to NewEnvRuntime
	Prelude   string `json:"prelude,omitempty"`    // source the host evaluates while setting this runtime up (its own configuration)
	// LimitsByField: the structural limits are not passed as options at
	// construction but assigned to the exported Runtime / CallStack fields
	// after the runtime has already evaluated something
	LimitsByField bool  `json:"limits_by_field,omitempty"`
	MaxSleepN     int64 `json:"max_sleep_ns,omitempty"`
	UseSimCtx     bool  `json:"simctx,omitempty"` // entry points take the simulated context
}

// FaultSpec arms one cooperative fault point: the Hit-th dynamic hit (1-based)
// of fault point FP performs Kind.
type FaultSpec struct {
	FP   int      `json:"fp"`
	Hit  int      `json:"hit"`
	Kind string   `json:"kind"`           // "error", "panic", "nil"
	With string   `json:"with,omitempty"` // what a panic fault panics with: "" a string, "lval" a lisp error value, "goerr" the Go error of one, "int", "runtime" a Go runtime error
	Cond string   `json:"cond,omitempty"`
	Data []string `json:"data,omitempty"` // raw ints or strings rendered as lisp strings
}

// Event is one simulator-visible probe event.
type Event struct {
	Seq     int64
	Steps   int64
	Polls   int64
	Tag     string
	Args    string
	Frames  int
	Nest    int
	Pkg     string
	StrArgs []string // raw contents of string-typed arguments
}

func (e Event) Key() string {
	return fmt.Sprintf("%s|%s|f%d|n%d|%s", e.Tag, e.Args, e.Frames, e.Nest, e.Pkg)
}

func (e Event) String() string {
	return fmt.Sprintf("#%d s=%d p=%d %s", e.Seq, e.Steps, e.Polls, e.Key())
}

// Snap is what (sim:snap) saw: the condition currently being handled.
type Snap struct {
	Ptr    *lisp.LVal
	Cond   string
	Cells  string
	Frames string
}

// SimCtx is the per-step seam: the interpreter calls Err() once per counted
// step.
type SimCtx struct {
	w        *World
	Polls    int64
	CancelAt int64 // Err returns an error from poll CancelAt on (0 = never)
	Cause    error
	done     chan struct{}
	closed   bool
	OnPoll   func(c *SimCtx) // scheduler / monitor hook, called before the cancel decision
	NoDone   bool
}

func NewSimCtx(w *World) *SimCtx {
	return &SimCtx{w: w, done: make(chan struct{}), Cause: context.Canceled}
}

func (c *SimCtx) Deadline() (time.Time, bool) { return time.Time{}, false }
func (c *SimCtx) Done() <-chan struct{} {
	if c.NoDone {
		return nil
	}
	return c.done
}
func (c *SimCtx) Value(any) any { return nil }
func (c *SimCtx) Err() error {
	c.Polls++
	if c.w != nil {
		c.w.seq++
		c.w.monitor("poll")
	}
	if c.OnPoll != nil {
		c.OnPoll(c)
	}
	if c.CancelAt > 0 && c.Polls >= c.CancelAt {
		if !c.closed {
			c.closed = true
			close(c.done)
		}
		return c.Cause
	}
	return nil
}

// CancelNow cancels the context from outside any evaluation (the host's
// `defer cancel()`): Done is closed and every later Err reports the cause.
func (c *SimCtx) CancelNow() {
	c.CancelAt = 1
	if !c.closed {
		c.closed = true
		close(c.done)
	}
}

// Cancelled reports whether the context has already reported an error.
func (c *SimCtx) Cancelled() bool { return c.closed }

// World is one real ELPS runtime plus the simulator-owned stubs around it.
type World struct {
	K      Knobs
	Env    *lisp.LEnv
	RT     *lisp.Runtime
	Stderr *bytes.Buffer
	Ctx    *SimCtx

	seq    int64
	Events []Event
	Snaps  []Snap
	Marks  []string

	Faults   []FaultSpec
	fpHits   map[int]int
	Fired    []string // fault kinds that actually fired, in order
	FPSeen   int      // number of fault point hits (armed or not)
	ProfHits int

	// monitor results
	MaxFrames int
	MaxNest   int
	MonViol   string // first invariant violation seen by the monitors
	OnProbe   func(w *World, ev *Event)

	stderrFail int // fail the n-th write to stderr (0 = never)
	stderrN    int
}

type dormantDebugger struct{}

func (dormantDebugger) IsEnabled() bool                    { return false }
func (dormantDebugger) OnEval(*lisp.LEnv, *lisp.LVal) bool { return false }
func (dormantDebugger) WaitIfPaused(*lisp.LEnv, *lisp.LVal) lisp.DebugAction {
	return lisp.DebugContinue
}
func (dormantDebugger) OnFunEntry(*lisp.LEnv, *lisp.LVal, *lisp.LEnv)  {}
func (dormantDebugger) OnFunReturn(*lisp.LEnv, *lisp.LVal, *lisp.LVal) {}
func (dormantDebugger) AfterFunCall(*lisp.LEnv) bool                   { return false }
func (dormantDebugger) OnError(*lisp.LEnv, *lisp.LVal) bool            { return false }

type stubProfiler struct{ w *World }

func (p stubProfiler) Start(fn *lisp.LVal) func() {
	p.w.ProfHits++
	return func() {}
}

type worldStderr struct{ w *World }

func (s worldStderr) Write(b []byte) (int, error) {
	s.w.stderrN++
	if s.w.stderrFail > 0 && s.w.stderrN == s.w.stderrFail {
		s.w.Fired = append(s.w.Fired, "stderr-error")
		return 0, errors.New("sim: stderr write failed")
	}
	return s.w.Stderr.Write(b)
}

// NewWorld builds a fresh runtime under knobs k.
func NewWorld(k Knobs) (*World, error) {
	w := &World{K: k, Stderr: &bytes.Buffer{}, fpHits: map[int]int{}}
	env := lisp.NewEnv(nil)
	if k.HandBuilt {
		env = lisp.NewEnvRuntime(&lisp.Runtime{Registry: lisp.NewRegistry(), Stack: &lisp.CallStack{}})
	}
	env.Runtime.Reader = parser.NewReader()
	env.Runtime.Stderr = worldStderr{w}
	var cfg []lisp.Config
	if k.MaxSteps != 0 {
		cfg = append(cfg, lisp.WithMaxSteps(k.MaxSteps))
	}
	if k.MaxAlloc != 0 {
		cfg = append(cfg, lisp.WithMaxAlloc(k.MaxAlloc))
	}
	if k.MaxPhys != 0 && !k.LimitsByField {
		cfg = append(cfg, lisp.WithMaximumPhysicalStackHeight(k.MaxPhys))
	}
	if k.MaxNest != 0 && !k.LimitsByField {
		cfg = append(cfg, lisp.WithMaxEvalNesting(k.MaxNest))
	}
	if k.MaxTail != 0 && !k.LimitsByField {
		cfg = append(cfg, lisp.WithMaxTailIterations(k.MaxTail))
	}
	if k.MaxMacro != 0 && !k.LimitsByField {
		cfg = append(cfg, lisp.WithMaxMacroExpansionDepth(k.MaxMacro))
	}
	if k.MaxLogic != 0 && !k.LimitsByField {
		cfg = append(cfg, lisp.WithMaximumLogicalStackHeight(k.MaxLogic))
	}
	if k.MaxSleepN != 0 {
		cfg = append(cfg, lisp.WithMaxSleep(time.Duration(k.MaxSleepN)))
	}
	if rc := lisp.InitializeUserEnv(env, cfg...); !rc.IsNil() {
		return nil, fmt.Errorf("InitializeUserEnv: %v", rc)
	}
	if k.Stdlib {
		if rc := lisplib.LoadLibrary(env); !rc.IsNil() {
			return nil, fmt.Errorf("LoadLibrary: %v", rc)
		}
	}
	if k.TimeLib && !k.Stdlib {
		if rc := libtime.LoadPackage(env); !rc.IsNil() {
			return nil, fmt.Errorf("libtime: %v", rc)
		}
		if rc := env.InPackage(lisp.Symbol(lisp.DefaultUserPackage)); !rc.IsNil() {
			return nil, fmt.Errorf("in-package user: %v", rc)
		}
	}
	switch k.TRO {
	case "debugger":
		env.Runtime.Debugger = dormantDebugger{}
	case "profiler":
		env.Runtime.Profiler = stubProfiler{w}
	}
	w.Env = env
	w.RT = env.Runtime
	w.Ctx = NewSimCtx(w)
	if err := w.installProbes(); err != nil {
		return nil, err
	}
	if k.LimitsByField {
		// the runtime has been used before its host tightens the limits
		if rc := env.LoadString("warmup", "(defun zz-warm (n) (if (<= n 0) 0 (+ 1 (zz-warm (- n 1))))) (zz-warm 3) (defmacro zz-wm (x) x) (zz-wm 1)"); rc.Type == lisp.LError {
			return nil, fmt.Errorf("warm-up: %v", rc)
		}
		if k.MaxPhys != 0 {
			env.Runtime.Stack.MaxHeightPhysical = k.MaxPhys
		}
		if k.MaxNest != 0 {
			env.Runtime.MaxEvalNesting = k.MaxNest
		}
		if k.MaxTail != 0 {
			env.Runtime.Stack.MaxTailIterations = k.MaxTail
		}
		if k.MaxMacro != 0 {
			env.Runtime.MaxMacroExpansionDepth = k.MaxMacro
		}
		if k.MaxLogic != 0 {
			env.Runtime.Stack.MaxHeightLogical = k.MaxLogic
		}
	}
	if k.Prelude != "" {
		if rc := env.LoadString("prelude", k.Prelude); rc.Type == lisp.LError {
			return nil, fmt.Errorf("prelude: %v", rc)
		}
	}
	return w, nil
}

func (w *World) installProbes() error {
	env := w.Env
	prev := w.RT.Package
	if rc := env.DefinePackage(lisp.Symbol("sim")); rc.Type == lisp.LError {
		return fmt.Errorf("define sim: %v", rc)
	}
	if rc := env.InPackage(lisp.Symbol("sim")); rc.Type == lisp.LError {
		return fmt.Errorf("in-package sim: %v", rc)
	}
	defer func() { w.RT.Package = prev }()
	env.AddBuiltins(true,
		elpsutil.Function("probe", lisp.Formals("tag", lisp.VarArgSymbol, "vals"), w.bProbe),
		elpsutil.Function("fp", lisp.Formals("id", "v"), w.bFP),
		elpsutil.Function("snap", lisp.Formals(), w.bSnap),
		elpsutil.Function("cur-pkg", lisp.Formals(), w.bCurPkg),
		elpsutil.Function("mark", lisp.Formals("id"), w.bMark),
		elpsutil.Function("handle", lisp.Formals(), bHandle),
		// an embedder's own binding of the library's sleep under one formal
		elpsutil.Function("nap", lisp.Formals("d"), func(env *lisp.LEnv, args *lisp.LVal) *lisp.LVal {
			return libtime.BuiltinSleep(env, lisp.SExpr([]*lisp.LVal{args.Cells[0]}))
		}),
		// host builtins meant to be used AS HANDLERS in handler-bind: each is
		// the fault point 91 / 92 and yields the number of data values
		elpsutil.Function("hf1", lisp.Formals("c", lisp.VarArgSymbol, "d"), func(env *lisp.LEnv, args *lisp.LVal) *lisp.LVal {
			return w.bFP(env, lisp.SExpr([]*lisp.LVal{lisp.Int(91), lisp.Int(len(args.Cells) - 1)}))
		}),
		elpsutil.Function("hf2", lisp.Formals("c", lisp.VarArgSymbol, "d"), func(env *lisp.LEnv, args *lisp.LVal) *lisp.LVal {
			return w.bFP(env, lisp.SExpr([]*lisp.LVal{lisp.Int(92), lisp.Int(len(args.Cells) - 1)}))
		}),
	)
	// the same cooperative fault point as a host-registered SPECIAL OPERATOR:
	// (sim:fpo id expr) decides first, then evaluates expr
	env.AddSpecialOps(true, elpsutil.Function("fpo", lisp.Formals("id", "expr"), w.bFPO))
	// (sim:errtext expr): the host's view of an error -- the message and trace
	// an embedder would log -- turned into a value, so that the message of
	// EVERY failing form of a program can reach a transcript
	env.AddSpecialOps(true, elpsutil.Function("errtext", lisp.Formals("expr"), w.bErrText))
	return nil
}

func render(v *lisp.LVal) string {
	if v == nil {
		return "<go-nil>"
	}
	return v.String()
}

func (w *World) bProbe(env *lisp.LEnv, args *lisp.LVal) *lisp.LVal {
	w.seq++
	tag := strings.TrimPrefix(render(args.Cells[0]), "'")
	var parts []string
	ret := lisp.Nil()
	var strArgs []string
	for _, v := range args.Cells[1:] {
		parts = append(parts, render(v))
		if v.Type == lisp.LString {
			strArgs = append(strArgs, v.Str)
		}
		ret = v
	}
	ev := Event{
		Seq:     w.seq,
		Steps:   w.RT.Steps(),
		Polls:   w.Ctx.Polls,
		Tag:     tag,
		Args:    strings.Join(parts, " "),
		Frames:  len(w.RT.Stack.Frames),
		Nest:    w.RT.EvalNesting(),
		Pkg:     w.RT.Package.Name,
		StrArgs: strArgs,
	}
	w.monitor("probe")
	if w.OnProbe != nil {
		w.OnProbe(w, &ev)
	}
	w.Events = append(w.Events, ev)
	return ret
}

func (w *World) bFP(env *lisp.LEnv, args *lisp.LVal) *lisp.LVal {
	w.seq++
	w.FPSeen++
	id, _ := lisp.GoInt(args.Cells[0])
	w.fpHits[id]++
	hit := w.fpHits[id]
	for _, f := range w.Faults {
		if f.FP == id && f.Hit == hit {
			w.Fired = append(w.Fired, f.Kind)
			w.Events = append(w.Events, Event{Seq: w.seq, Steps: w.RT.Steps(), Polls: w.Ctx.Polls,
				Tag: "fault", Args: fmt.Sprintf("%d/%d %s %s", id, hit, f.Kind, f.Cond),
				Frames: len(w.RT.Stack.Frames), Nest: w.RT.EvalNesting(), Pkg: w.RT.Package.Name})
			switch f.Kind {
			case "panic":
				// whatever value the host code panics with, it is a host panic
				switch f.With {
				case "lval":
					panic(env.ErrorCondition("sim-fault", id))
				case "goerr":
					panic(lisp.GoError(env.ErrorCondition("my-error", "wrapped")))
				case "int":
					panic(id)
				case "runtime":
					var np *simHandle
					_ = *np.P
				}
				panic(fmt.Sprintf("sim: injected host panic at fp %d hit %d", id, hit))
			case "nil":
				return nil
			case "baddata":
				// a defective host builtin: an error value one of whose data
				// cells is a Go nil.  Whatever the interpreter does with it
				// (it may well panic inside its own code when it touches the
				// cell), the runtime must come out clean.
				e := env.ErrorCondition("sim-baddata", 1)
				e.Cells = append(e.Cells, nil)
				return e
			default:
				data := make([]interface{}, 0, len(f.Data))
				for _, d := range f.Data {
					data = append(data, faultDatum(d))
				}
				cond := f.Cond
				if cond == "" {
					cond = "sim-fault"
				}
				return env.ErrorCondition(cond, data...)
			}
		}
	}
	return args.Cells[1]
}

func (w *World) bFPO(env *lisp.LEnv, args *lisp.LVal) *lisp.LVal {
	idv := args.Cells[0]
	if idv.Type != lisp.LInt {
		return env.Errorf("sim:fpo: id is not an int literal")
	}
	// decide like sim:fp, with a placeholder value, then evaluate the form
	r := w.bFP(env, lisp.SExpr([]*lisp.LVal{idv, lisp.Nil()}))
	if r == nil || r.Type == lisp.LError {
		return r
	}
	return env.Eval(args.Cells[1])
}

func (w *World) bErrText(env *lisp.LEnv, args *lisp.LVal) *lisp.LVal {
	v := env.Eval(args.Cells[0])
	if v == nil || v.Type != lisp.LError {
		return v
	}
	var b bytes.Buffer
	_, _ = (*lisp.ErrorVal)(v).WriteTrace(&b)
	return lisp.String("host sees: " + (*lisp.ErrorVal)(v).Error() + "\n" + b.String())
}

// simHandle is what an embedder's native value typically looks like: a Go
// struct reached through a pointer and holding further pointers.  Nothing an
// evaluation prints or reports may depend on where any of them lives.
type simHandle struct {
	P *int
	M map[string]*int
	S []*int
	F func()
}

func bHandle(env *lisp.LEnv, args *lisp.LVal) *lisp.LVal {
	_ = make([]byte, 1+len(args.Cells)) // perturb the allocator a little
	return lisp.Native(&simHandle{P: new(int), M: map[string]*int{"a": new(int), "b": new(int)}, S: []*int{new(int)}, F: func() {}})
}

func faultDatum(d string) *lisp.LVal {
	var n int
	if _, err := fmt.Sscanf(d, "%d", &n); err == nil && fmt.Sprint(n) == d {
		return lisp.Int(n)
	}
	return lisp.String(d)
}

func (w *World) bSnap(env *lisp.LEnv, args *lisp.LVal) *lisp.LVal {
	w.seq++
	c := w.RT.CurrentCondition()
	s := Snap{Ptr: c}
	if c != nil {
		s.Cond = c.Str
		var parts []string
		for _, x := range c.Cells {
			parts = append(parts, render(x))
		}
		s.Cells = strings.Join(parts, " ")
		s.Frames = stackNames(c)
	}
	w.Snaps = append(w.Snaps, s)
	return lisp.Int(len(w.Snaps))
}

func stackNames(c *lisp.LVal) string {
	if c == nil || c.Type != lisp.LError {
		return ""
	}
	st := c.CallStack()
	if st == nil {
		return "<nostack>"
	}
	var names []string
	for _, f := range st.Frames {
		names = append(names, f.QualifiedFunName())
	}
	return strings.Join(names, ">")
}

func (w *World) bCurPkg(env *lisp.LEnv, args *lisp.LVal) *lisp.LVal {
	return lisp.String(w.RT.Package.Name)
}

func (w *World) bMark(env *lisp.LEnv, args *lisp.LVal) *lisp.LVal {
	w.seq++
	w.Marks = append(w.Marks, render(args.Cells[0]))
	return args.Cells[0]
}

// monitor evaluates the always-on invariants on the live runtime.
func (w *World) monitor(where string) {
	fr := len(w.RT.Stack.Frames)
	ne := w.RT.EvalNesting()
	if fr > w.MaxFrames {
		w.MaxFrames = fr
	}
	if ne > w.MaxNest {
		w.MaxNest = ne
	}
	if w.MonViol != "" {
		return
	}
	if lim := w.RT.Stack.MaxHeightPhysical; lim > 0 && fr > lim {
		w.MonViol = fmt.Sprintf("frames %d > MaxHeightPhysical %d at %s", fr, lim, where)
	}
	if lim := w.K.MaxNest; lim > 0 && ne > lim {
		w.MonViol = fmt.Sprintf("nesting %d > MaxEvalNesting %d at %s", ne, lim, where)
	}
	if lim := w.RT.Stack.MaxTailIterations; lim > 0 {
		for i := range w.RT.Stack.Frames {
			if ti := int(w.RT.Stack.Frames[i].TailIterations); ti > lim {
				w.MonViol = fmt.Sprintf("frame tail iterations %d > MaxTailIterations %d at %s", ti, lim, where)
			}
		}
	}
}

// Outcome is the transcript of one entry-point call.
type Outcome struct {
	Value   string     `json:"value,omitempty"`
	Cond    string     `json:"cond,omitempty"`
	Msg     string     `json:"msg,omitempty"`
	IsErr   bool       `json:"is_err,omitempty"`
	IsPanic bool       `json:"is_panic,omitempty"`
	GoPanic string     `json:"go_panic,omitempty"` // a Go panic escaped the entry point
	Steps   int64      `json:"steps"`
	Stderr  string     `json:"stderr,omitempty"`
	Val     *lisp.LVal `json:"-"`
}

func (o Outcome) Result() string {
	if o.GoPanic != "" {
		return "GO-PANIC " + o.GoPanic
	}
	if o.IsErr {
		p := ""
		if o.IsPanic {
			p = " [host-panic]"
		}
		return fmt.Sprintf("ERR %s: %s%s", o.Cond, o.Msg, p)
	}
	return o.Value
}

// ResultNoMsg is Result without the error message text (messages may embed
// budgets or depths that legitimately differ between configurations).
func (o Outcome) ResultNoMsg() string {
	if o.IsErr {
		return fmt.Sprintf("ERR %s panic=%v", o.Cond, o.IsPanic)
	}
	return o.Result()
}

func (w *World) outcome(v *lisp.LVal, stderrFrom int) Outcome {
	o := Outcome{Steps: w.RT.Steps(), Val: v}
	if w.Stderr.Len() > stderrFrom {
		o.Stderr = w.Stderr.String()[stderrFrom:]
	}
	if v == nil {
		o.IsErr = true
		o.Cond = "<go-nil-result>"
		return o
	}
	if v.Type == lisp.LError {
		o.IsErr = true
		o.Cond = v.Str
		o.Msg = (*lisp.ErrorVal)(v).ErrorMessage()
		o.IsPanic = lisp.IsInternalPanic(v)
		return o
	}
	o.Value = v.String()
	return o
}

// Call runs f (one entry-point invocation) guarding against an escaping Go
// panic, and returns its transcript.
func (w *World) Call(f func() *lisp.LVal) (out Outcome) {
	from := w.Stderr.Len()
	defer func() {
		if r := recover(); r != nil {
			out = Outcome{GoPanic: fmt.Sprint(r), Steps: w.RT.Steps()}
		}
	}()
	v := f()
	return w.outcome(v, from)
}

// LoadString evaluates src through LoadString or LoadStringContext according
// to the UseSimCtx knob.
func (w *World) LoadString(src string) Outcome {
	if w.K.UseSimCtx {
		return w.Call(func() *lisp.LVal { return w.Env.LoadStringContext(w.Ctx, "sim", src) })
	}
	return w.Call(func() *lisp.LVal { return w.Env.LoadString("sim", src) })
}

func (w *World) Load(forms []*Node) Outcome { return w.LoadString(Src(forms)) }

// EventKeys renders the events' comparable payloads.
func EventKeys(evs []Event) []string {
	out := make([]string, len(evs))
	for i, e := range evs {
		out[i] = e.Key()
	}
	return out
}
