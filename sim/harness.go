package sim

import (
	"encoding/json"
	"fmt"
	"os"
	"path/filepath"
	"sort"
	"strconv"
	"strings"
	"sync"
	"time"
)

// Violation is one oracle failure.  Oracle names the violated clause and is
// the "violation class" preserved by shrinking; Detail is human-readable.
type Violation struct {
	Oracle string `json:"oracle"`
	Detail string `json:"detail"`
}

func Violf(oracle, format string, a ...any) *Violation {
	return &Violation{Oracle: oracle, Detail: strings.ReplaceAll(fmt.Sprintf(format, a...), "\x00", "<any-message>")}
}

// Stats is what a worker measured.  Everything in it is counted, never assumed.
type Stats struct {
	Counters map[string]int64
	Hashes   map[uint64]struct{} // distinct non-trivial executions (event-log hashes)
	AllHash  Hash                // hash of all case hashes in order: the worker's determinism fingerprint
	Samples  []json.RawMessage
	SimSteps int64
	SimTimeS float64
	Runs     int64 // interpreter executions (a case usually runs many)
}

func NewStats() *Stats {
	return &Stats{Counters: map[string]int64{}, Hashes: map[uint64]struct{}{}, AllHash: NewHash()}
}

func (s *Stats) Inc(k string)          { s.Counters[k]++ }
func (s *Stats) Add(k string, n int64) { s.Counters[k] += n }
func (s *Stats) NoteHash(h Hash, nontrivial bool) {
	s.AllHash = s.AllHash.Int(int64(h))
	if nontrivial {
		s.Hashes[uint64(h)] = struct{}{}
	}
}

// Engine is one simulation engine.  Gen turns PRNG draws into an explicit
// case; Run executes a case and never sees the PRNG.
type Engine interface {
	Name() string
	Property() string
	NumCases(tier string) int
	Gen(r *Rand, tier string) any
	Decode(raw []byte) (any, error)
	Run(c any, st *Stats) *Violation
	Shrink(c any) []any
}

var engines = map[string]Engine{}

func Register(e Engine) { engines[e.Name()] = e }

// Envelope is the on-disk form of a case / replay file.
type Envelope struct {
	Property string          `json:"property"`
	Engine   string          `json:"engine"`
	Seed     uint64          `json:"seed"`
	Case     int             `json:"case"`
	Body     json.RawMessage `json:"body"`
	Expect   *Violation      `json:"expect,omitempty"`
	Note     string          `json:"note,omitempty"`
}

type ViolationRecord struct {
	Violation
	Case   int    `json:"case"`
	Replay string `json:"replay"`
	Shrunk int    `json:"shrink_steps"`
}

type WorkerResult struct {
	Engine     string            `json:"engine"`
	Property   string            `json:"property"`
	Seed       uint64            `json:"seed"`
	Tier       string            `json:"tier"`
	Worker     int               `json:"worker"`
	Workers    int               `json:"workers"`
	Cases      int               `json:"cases"`
	Runs       int64             `json:"runs"`
	Violations []ViolationRecord `json:"violations"`
	Counters   map[string]int64  `json:"counters"`
	Hashes     []string          `json:"hashes"`
	LogHash    string            `json:"log_hash"`
	Samples    []json.RawMessage `json:"samples"`
	SimSteps   int64             `json:"sim_steps"`
	SimTimeS   float64           `json:"sim_time_s"`
	WallS      float64           `json:"wall_s"`
	Wedged     bool              `json:"wedged,omitempty"`
	CaseHashes map[string]string `json:"case_hashes,omitempty"` // engines that expose a per-case transcript hash (cross-process comparison)
}

// CaseHasher is implemented by engines whose cases have a transcript hash that
// must be identical in every process.
type CaseHasher interface{ CaseHash() string }

// ExpectSetter lets the driver turn a case into a cross-process replay.
type ExpectSetter interface{ SetExpect(c any, hash string) }

func envInt(name string, def int) int {
	if v := os.Getenv(name); v != "" {
		if n, err := strconv.Atoi(v); err == nil {
			return n
		}
	}
	return def
}

func envU64(name string, def uint64) uint64 {
	if v := os.Getenv(name); v != "" {
		if n, err := strconv.ParseUint(v, 10, 64); err == nil {
			return n
		}
	}
	return def
}

// in-flight case, for the watchdog
var (
	inflightMu   sync.Mutex
	inflightEnv  *Envelope
	inflightFrom time.Time
	shrinkBest   *Envelope // while shrinking: the best reproduction so far
)

func setShrinkBest(e *Envelope) {
	inflightMu.Lock()
	shrinkBest = e
	inflightMu.Unlock()
}

func setInflight(e *Envelope) {
	inflightMu.Lock()
	inflightEnv = e
	inflightFrom = time.Now()
	inflightMu.Unlock()
}

func marshalBody(c any) json.RawMessage {
	b, err := json.Marshal(c)
	if err != nil {
		panic(fmt.Sprintf("sim: cannot marshal case: %v", err))
	}
	return b
}

func replayDir() string {
	d := os.Getenv("VERIF_REPLAY_DIR")
	if d == "" {
		d = "/verif/replays"
	}
	_ = os.MkdirAll(d, 0o755)
	return d
}

func writeReplay(env *Envelope) string {
	b, _ := json.MarshalIndent(env, "", " ")
	h := NewHash().Str(string(env.Body))
	name := fmt.Sprintf("%s-%s-seed%d-case%d-%08x.json", env.Property, env.Engine, env.Seed, env.Case, uint32(h))
	p := filepath.Join(replayDir(), name)
	_ = os.WriteFile(p, b, 0o644)
	return p
}

// RunWorker executes this worker's share of the cases of engine e.
func RunWorker(e Engine) int {
	seed := envU64("VERIF_SEED", 1)
	tier := os.Getenv("VERIF_TIER")
	if tier == "" {
		tier = "quick"
	}
	worker := envInt("VERIF_WORKER", 0)
	workers := envInt("VERIF_WORKERS", 1)
	out := os.Getenv("VERIF_OUT")
	n := e.NumCases(tier)
	if v := envInt("VERIF_CASES", 0); v > 0 {
		n = v
	}
	maxViol := envInt("VERIF_MAX_VIOLATIONS", 3)
	// Oracles of listed known findings (passed by the driver): the first
	// occurrence per worker is recorded so the driver can print its
	// KNOWN-FINDING line; they never count toward the violation cap and are
	// not shrunk, so they cannot crowd out anything else.
	knownOracles := map[string]bool{}
	for _, o := range strings.Split(os.Getenv("VERIF_KNOWN_ORACLES"), ",") {
		if o != "" {
			knownOracles[o] = true
		}
	}
	knownSeen := map[string]bool{}
	counted := 0
	caseTimeout := time.Duration(envInt("VERIF_CASE_TIMEOUT_S", 120)) * time.Second

	st := NewStats()
	res := &WorkerResult{Engine: e.Name(), Property: e.Property(), Seed: seed, Tier: tier, Worker: worker, Workers: workers}
	start := time.Now()
	fmt.Printf("SEED %d engine=%s tier=%s worker=%d/%d cases=%d\n", seed, e.Name(), tier, worker, workers, n)

	flush := func() {
		res.Counters = st.Counters
		res.Runs = st.Runs
		res.Hashes = res.Hashes[:0]
		hs := make([]uint64, 0, len(st.Hashes))
		for h := range st.Hashes {
			hs = append(hs, h)
		}
		sort.Slice(hs, func(i, j int) bool { return hs[i] < hs[j] })
		for _, h := range hs {
			res.Hashes = append(res.Hashes, strconv.FormatUint(h, 16))
		}
		res.LogHash = strconv.FormatUint(uint64(st.AllHash), 16)
		res.Samples = st.Samples
		res.SimSteps = st.SimSteps
		res.SimTimeS = st.SimTimeS
		res.WallS = time.Since(start).Seconds()
		if out != "" {
			b, _ := json.Marshal(res)
			_ = os.WriteFile(out, b, 0o644)
		}
	}

	// watchdog: a case that does not return is reported with its case file.
	stop := make(chan struct{})
	go func() {
		t := time.NewTicker(time.Second)
		defer t.Stop()
		for {
			select {
			case <-stop:
				return
			case <-t.C:
				inflightMu.Lock()
				env, from, best := inflightEnv, inflightFrom, shrinkBest
				inflightMu.Unlock()
				if env != nil && best != nil && time.Since(from) > caseTimeout {
					// a shrink candidate wedged: report the un-shrunk violation
					p := writeReplay(best)
					res.Violations = append(res.Violations, ViolationRecord{Violation: *best.Expect, Case: best.Case, Replay: p})
					flush()
					fmt.Printf("SHRINK-CANDIDATE-WEDGED engine=%s case=%d replay=%s\n", e.Name(), best.Case, p)
					os.Exit(1)
				}
				if env != nil && time.Since(from) > caseTimeout {
					env.Expect = &Violation{Oracle: "wedged", Detail: fmt.Sprintf("case did not return within %v", caseTimeout)}
					p := writeReplay(env)
					res.Wedged = true
					res.Violations = append(res.Violations, ViolationRecord{Violation: *env.Expect, Case: env.Case, Replay: p})
					flush()
					fmt.Printf("WEDGED engine=%s case=%d replay=%s\n", e.Name(), env.Case, p)
					os.Exit(3)
				}
			}
		}
	}()

	if d := os.Getenv("VERIF_DUMP_CASE"); d != "" {
		// write case <d> as a replay file expecting transcript hash VERIF_EXPECT
		idx, _ := strconv.Atoi(d)
		c := e.Gen(NewRand(seed, e.Name(), uint64(idx)), tier)
		if es, ok := e.(ExpectSetter); ok {
			es.SetExpect(c, os.Getenv("VERIF_EXPECT"))
		}
		env := &Envelope{Property: e.Property(), Engine: e.Name(), Seed: seed, Case: idx, Body: marshalBody(c),
			Expect: &Violation{Oracle: "process-differs", Detail: "transcript differs between processes"}}
		fmt.Printf("DUMPED %s\n", writeReplay(env))
		close(stop)
		return 0
	}
	hasher, _ := e.(CaseHasher)
	// The order in which this worker visits its cases is part of the process
	// history; cross-process comparisons vary it (VERIF_ORDER) so that a
	// dependence on what ran earlier in the process shows up as a difference.
	var order []int
	for idx := worker; idx < n; idx += workers {
		order = append(order, idx)
	}
	switch os.Getenv("VERIF_ORDER") {
	case "reverse":
		for i, j := 0, len(order)-1; i < j; i, j = i+1, j-1 {
			order[i], order[j] = order[j], order[i]
		}
	case "interleave":
		var a, b []int
		for i, v := range order {
			if i%2 == 1 {
				a = append(a, v)
			} else {
				b = append(b, v)
			}
		}
		order = append(a, b...)
	}
	for _, idx := range order {
		r := NewRand(seed, e.Name(), uint64(idx))
		c := e.Gen(r, tier)
		env := &Envelope{Property: e.Property(), Engine: e.Name(), Seed: seed, Case: idx, Body: marshalBody(c)}
		setInflight(env)
		v := e.Run(c, st)
		res.Cases++
		if hasher != nil && v == nil {
			if res.CaseHashes == nil {
				res.CaseHashes = map[string]string{}
			}
			res.CaseHashes[strconv.Itoa(idx)] = hasher.CaseHash()
		}
		if len(st.Samples) < 3 && idx%7 == worker%7 {
			st.Samples = append(st.Samples, env.Body)
		}
		if v != nil && knownOracles[v.Oracle] {
			st.Inc("known_finding_" + v.Oracle + "_cases")
			if !knownSeen[v.Oracle] {
				knownSeen[v.Oracle] = true
				env.Expect = v
				p := writeReplay(env)
				res.Violations = append(res.Violations, ViolationRecord{Violation: *v, Case: idx, Replay: p})
			}
			v = nil
		}
		if v != nil {
			counted++
			fmt.Printf("FOUND engine=%s case=%d oracle=%s detail=%s\n", e.Name(), idx, v.Oracle, v.Detail)
			setShrinkBest(&Envelope{Property: e.Property(), Engine: e.Name(), Seed: seed, Case: idx, Body: marshalBody(c), Expect: v})
			c2, v2, steps := shrinkCase(e, c, v)
			setShrinkBest(nil)
			env2 := &Envelope{Property: e.Property(), Engine: e.Name(), Seed: seed, Case: idx, Body: marshalBody(c2), Expect: v2}
			p := writeReplay(env2)
			res.Violations = append(res.Violations, ViolationRecord{Violation: *v2, Case: idx, Replay: p, Shrunk: steps})
			if counted >= maxViol {
				break
			}
		}
	}
	setInflight(nil)
	close(stop)
	if len(st.Samples) == 0 && n > 0 {
		r := NewRand(seed, e.Name(), uint64(worker))
		st.Samples = append(st.Samples, marshalBody(e.Gen(r, tier)))
	}
	flush()
	fmt.Printf("DONE engine=%s worker=%d cases=%d runs=%d violations=%d wall=%.1fs loghash=%s\n",
		e.Name(), worker, res.Cases, st.Runs, len(res.Violations), res.WallS, res.LogHash)
	if len(res.Violations) > 0 {
		return 1
	}
	return 0
}

// shrinkCase is delta debugging over the explicit case: a candidate is kept
// only while the same oracle still fails.
func shrinkCase(e Engine, c any, v *Violation) (any, *Violation, int) {
	budget := envInt("VERIF_SHRINK_RUNS", 1500)
	deadline := time.Now().Add(time.Duration(envInt("VERIF_SHRINK_S", 60)) * time.Second)
	steps := 0
	scratch := NewStats()
	for {
		improved := false
		for _, cand := range e.Shrink(c) {
			if budget <= 0 || time.Now().After(deadline) {
				return c, v, steps
			}
			budget--
			// round-trip through JSON so that what we test is what replays
			raw := marshalBody(cand)
			dc, err := e.Decode(raw)
			if err != nil {
				continue
			}
			env := &Envelope{Property: e.Property(), Engine: e.Name(), Body: raw}
			setInflight(env)
			v2 := e.Run(dc, scratch)
			if v2 != nil && v2.Oracle == v.Oracle {
				c, v = dc, v2
				inflightMu.Lock()
				if shrinkBest != nil {
					shrinkBest = &Envelope{Property: shrinkBest.Property, Engine: shrinkBest.Engine, Seed: shrinkBest.Seed, Case: shrinkBest.Case, Body: raw, Expect: v2}
				}
				inflightMu.Unlock()
				steps++
				improved = true
				break
			}
		}
		if !improved {
			return c, v, steps
		}
	}
}

// RunReplay re-executes a replay file.  Exit 1 when a violation reproduces.
func RunReplay(path string) int {
	b, err := os.ReadFile(path)
	if err != nil {
		fmt.Printf("REPLAY-ERROR %v\n", err)
		return 2
	}
	var env Envelope
	if err := json.Unmarshal(b, &env); err != nil {
		fmt.Printf("REPLAY-ERROR %v\n", err)
		return 2
	}
	e := engines[env.Engine]
	if e == nil {
		fmt.Printf("REPLAY-ERROR unknown engine %q\n", env.Engine)
		return 2
	}
	c, err := e.Decode(env.Body)
	if err != nil {
		fmt.Printf("REPLAY-ERROR decode: %v\n", err)
		return 2
	}
	fmt.Printf("SEED %d engine=%s replay=%s\n", env.Seed, env.Engine, path)
	v := e.Run(c, NewStats())
	if v == nil {
		fmt.Printf("REPLAY-HELD property=%s engine=%s\n", env.Property, env.Engine)
		return 0
	}
	same := env.Expect != nil && env.Expect.Oracle == v.Oracle && env.Expect.Detail == v.Detail
	fmt.Printf("REPLAY-VIOLATION property=%s oracle=%s same_as_recorded=%v detail=%s\n", env.Property, v.Oracle, same, v.Detail)
	fmt.Printf("VIOLATION property=%s replay=%s\n", env.Property, path)
	return 1
}
