package sim

import (
	"encoding/json"
	"fmt"
	"strings"

	"github.com/luthersystems/elps/lisp"
)

// Engine E1 `limits` — property C04.
//
// Self-reference oracle: the run of a program under every step budget n and
// every cancellation poll index k is compared with the unlimited run of the
// same program on the same (real) interpreter.

const hugeBudget = int64(1) << 40
const refCap = 60000 // reference runs longer than this are discarded

type LimitsCase struct {
	Mode         string   `json:"mode"` // "general" | "phys" | "nest" | "tail" | "macro" | "meter"
	Knobs        Knobs    `json:"knobs"`
	Forms        []*Node  `json:"forms"`
	Forms2       []*Node  `json:"forms2,omitempty"`
	Budgets      []int64  `json:"budgets,omitempty"` // explicit budgets; empty with Sweep = every n in [1,N+2]
	Cancels      []int64  `json:"cancels,omitempty"`
	Sweep        bool     `json:"sweep,omitempty"`
	EmptyBetween bool     `json:"empty_between,omitempty"` // an empty / comment-only load happens between P and P2
	Picks        []uint64 `json:"picks,omitempty"`         // sampled placements, reduced modulo N / polls at run time
	// Sentinel wraps the program's last form (at run time) in a form that
	// needs one more evaluation step after it -- a constant, symbol or call
	// in tail position -- behind the harness's own ignore-errors: once the
	// budget is spent or the context cancelled, that step cannot succeed, so
	// the run can never end with a value
	Sentinel string `json:"sentinel,omitempty"`
	// structural modes
	Depth  int  `json:"depth,omitempty"`   // recursion depth / nesting depth / loop turns / expansions
	Delta  int  `json:"delta,omitempty"`   // physlogic mode: logical limit = physical limit + Delta
	MaxLim int  `json:"max_lim,omitempty"` // sweep the limit over [1,MaxLim]
	Caught bool `json:"caught,omitempty"`  // program wraps the overflow in handler-bind
	// entry mode: Prelude is loaded fault-free, then the host calls an entry
	// point other than Load* under the budget / context
	Prelude []*Node    `json:"prelude,omitempty"`
	Entry   *EntrySpec `json:"entry,omitempty"`
	// Faults are host misbehaviour that is part of the program (a host
	// builtin that panics, fails or returns nothing at a given hit): the
	// unlimited reference run meets them too, so every self-reference oracle
	// applies unchanged -- and the evaluation after a recovered host panic
	// must start with a full budget like any other
	Faults []FaultSpec `json:"faults,omitempty"`

	hintBudget int64
	hintCancel int64
	hintLimit  int
}

// EntrySpec describes a host call through an entry point other than Load*.
type EntrySpec struct {
	Kind string `json:"kind"` // FunCall | FunCallContext | SpecialOpCall | MacroCall | Eval | EvalContext | EvalSExpr
	Fun  string `json:"fun"`  // symbol naming the function / operator / macro to call
	Args string `json:"args"` // source of the argument expressions (evaluated fault-free for FunCall*, passed unevaluated otherwise)
}

type limitsEngine struct{}

func init() { Register(limitsEngine{}) }

func (limitsEngine) Name() string     { return "limits" }
func (limitsEngine) Property() string { return "C04" }
func (limitsEngine) NumCases(tier string) int {
	if tier == "thorough" {
		return 60000
	}
	return 1400
}

func (limitsEngine) Decode(raw []byte) (any, error) {
	c := &LimitsCase{}
	return c, json.Unmarshal(raw, c)
}

func (limitsEngine) Gen(r *Rand, tier string) any {
	c := &LimitsCase{}
	switch r.Pick([]int{70, 6, 6, 6, 6, 6, 14, 5, 4}) {
	case 8:
		// both stack limits configured, the logical one at, just below or just
		// above the physical one: whichever fires first, the physical bound holds
		c.Mode = "physlogic"
		c.Depth = r.Range(1, 14)
		c.Caught = r.Bool()
		c.Delta = []int{-2, -1, 0, 1, 2, 5}[r.Intn(6)]
		c.Knobs.TRO = PickStr(r, []string{"", "debugger", "profiler"})
		c.Forms = structProgram(r, "phys", c.Depth, c.Caught)
		c.MaxLim = c.Depth*5 + 14
	case 7:
		c.Mode = "logical"
		c.Depth = r.Range(1, 16)
		c.Caught = r.Bool()
		c.Forms = structProgram(r, "tail", c.Depth, c.Caught)
		c.MaxLim = c.Depth*4 + 8
	case 6:
		c.Mode = "entry"
		o := GenOpts{Swallow: r.Chance(1, 3), Errors: r.Chance(1, 4), LoadStr: r.Chance(1, 3), Macros: r.Chance(1, 3), Callbacks: r.Chance(1, 2),
			Budget: r.Range(20, 80), MaxFuel: r.Range(2, 5)}
		g := NewPGen(r.Fork(), o)
		c.Prelude = g.Defs(3)
		g.vars = []string{"x"}
		cb1 := g.Probe(g.E(r.Range(1, 3)))
		g.vars = []string{"a", "b"}
		cb2 := g.Probe(g.E(r.Range(1, 3)))
		g.vars = nil
		c.Prelude = append(c.Prelude,
			L(A("defun"), A("cb1"), L(A("x")), cb1),
			L(A("defun"), A("cb2"), L(A("a"), A("b")), cb2),
			L(A("defun"), A("lt"), L(A("a"), A("b")), Call("<", g.Probe(A("a")), A("b"))),
			L(A("defmacro"), A("mac1"), L(A("x")), Call("quasiquote", Call("+", I(1), Call("unquote", A("x"))))))
		lst := fmt.Sprintf("(list %d %d %d %d)", r.Range(0, 9), r.Range(0, 9), r.Range(0, 9), r.Range(0, 9))
		body := g.Probe(g.E(2)).String() + " " + g.Probe(g.E(2)).String()
		specs := []EntrySpec{
			{"FunCall", "map", "'list cb1 " + lst}, {"FunCallContext", "map", "'vector cb1 " + lst},
			{"FunCall", "foldl", "cb2 0 " + lst}, {"FunCallContext", "foldr", "cb2 0 " + lst},
			{"FunCall", "funcall", "cb1 3"}, {"FunCallContext", "apply", "cb2 1 (list 2)"},
			{"FunCall", "stable-sort", "lt " + lst}, {"FunCallContext", "select", "'list (lambda (x) (< (cb1 x) 3)) " + lst},
			{"FunCall", "cb1", "4"}, {"FunCallContext", "cb2", "1 2"},
			{"SpecialOpCall", "progn", body}, {"SpecialOpCall", "let", "((q 1)) " + body},
			{"SpecialOpCall", "dotimes", "(i 3) " + body}, {"SpecialOpCall", "ignore-errors", body},
			{"MacroCall", "mac1", "5"}, {"MacroCall", "defun", "zzf (a) " + body},
			{"Eval", "progn", body}, {"EvalContext", "progn", body}, {"EvalSExpr", "progn", body},
		}
		sp := specs[r.Intn(len(specs))]
		c.Entry = &sp
		g2 := NewPGen(r.Fork(), GenOpts{Budget: 25, MaxFuel: 3})
		g2.globs = g.globs
		c.Forms2 = []*Node{g2.Probe(g2.E(3))}
		c.Knobs.TRO = PickStr(r, []string{"", "", "debugger", "profiler"})
		c.Sweep = true
		for i := 0; i < 24; i++ {
			c.Picks = append(c.Picks, r.U64())
		}
	case 0:
		c.Mode = "general"
		o := GenOpts{
			Swallow: r.Chance(1, 2), Errors: r.Chance(1, 3), LoadStr: r.Chance(1, 2), Macros: r.Chance(1, 2),
			Callbacks: r.Chance(1, 2), Stderr: r.Chance(1, 4),
			Budget: r.Range(30, 160), MaxFuel: r.Range(2, 7),
		}
		o.FP = r.Chance(1, 3)
		g := NewPGen(r.Fork(), o)
		c.Forms = g.Program(r.Range(2, 5))
		if o.FP && g.fpN > 0 {
			for i := r.Range(1, 2); i > 0; i-- {
				c.Faults = append(c.Faults, FaultSpec{FP: r.Range(1, g.fpN), Hit: r.Pick([]int{0, 6, 2, 1}),
					Kind: PickStr(r, []string{"panic", "panic", "panic", "error", "nil"}), Cond: "sim-fault"})
			}
		}
		g2 := NewPGen(r.Fork(), GenOpts{Budget: 25, MaxFuel: 3})
		g2.globs = g.globs
		c.Forms2 = []*Node{g2.Probe(g2.E(3))}
		c.Knobs.Stdlib = r.Chance(1, 10)
		c.Knobs.TRO = PickStr(r, []string{"", "", "debugger", "profiler"})
		c.EmptyBetween = r.Chance(1, 4)
		if r.Chance(2, 5) {
			c.Sentinel = PickStr(r, sentinelKinds)
		}
		if r.Chance(1, 4) { // swarm: small structural limits
			if r.Bool() {
				c.Knobs.MaxPhys = r.Range(3, 20)
			}
			if r.Bool() {
				c.Knobs.MaxNest = r.Range(6, 40)
			}
			if r.Bool() {
				c.Knobs.MaxTail = r.Range(1, 12)
			}
			if r.Chance(1, 3) {
				c.Knobs.MaxMacro = r.Range(1, 4)
			}
		}
		c.Sweep = r.Chance(3, 5)
		n := 24
		for i := 0; i < n; i++ {
			c.Picks = append(c.Picks, r.U64())
		}
	case 1:
		c.Mode = "phys"
		c.Depth = r.Range(1, 14)
		c.Caught = r.Bool()
		c.Knobs.TRO = PickStr(r, []string{"", "debugger", "profiler"})
		c.Forms = structProgram(r, "phys", c.Depth, c.Caught)
		c.MaxLim = c.Depth*5 + 14
	case 2:
		c.Mode = "nest"
		c.Depth = r.Range(1, 14)
		c.Caught = r.Bool()
		c.Forms = structProgram(r, "nest", c.Depth, c.Caught)
		c.MaxLim = c.Depth*3 + 14
	case 3:
		c.Mode = "tail"
		c.Depth = r.Range(1, 20)
		c.Caught = r.Bool()
		kind := "tail"
		if r.Chance(1, 2) {
			// on some turns the tail call's arguments take the stack deeper
			// than it has ever been in this runtime (the frame storage grows)
			kind = "tail-deep"
		}
		c.Forms = structProgram(r, kind, c.Depth, c.Caught)
		c.MaxLim = c.Depth + 4
	case 4:
		c.Mode = "macro"
		c.Depth = r.Range(1, 10)
		c.Caught = r.Bool()
		c.Forms = structProgram(r, "macro", c.Depth, c.Caught)
		c.MaxLim = c.Depth + 4
	default:
		c.Mode = "meter"
		c.Depth = r.Range(1, 40)
		c.Forms = meterProgram(r, c.Depth)
		c.Knobs.TRO = PickStr(r, []string{"", "", "profiler"})
	}
	switch c.Mode {
	case "phys", "nest", "tail", "macro", "logical", "physlogic":
		// in a third of the structural cases the host assigns the limit to the
		// exported field of a runtime that has already evaluated something
		c.Knobs.LimitsByField = r.Chance(1, 3)
	}
	c.Knobs.UseSimCtx = true
	return c
}

// structProgram builds a program with a known recursion depth / nesting depth
// / tail-loop turn count / macro re-expansion count, optionally wrapped in a
// catch-all handler.  The deepest point carries a probe.
func structProgram(r *Rand, kind string, depth int, caught bool) []*Node {
	var defs []*Node
	var call *Node
	switch kind {
	case "phys":
		// each recursion level pushes a seeded mix of frame kinds (function,
		// special operator, Go-implemented macro, lisp macro that calls
		// nothing), so sweeping the limit lands the refused push on every kind
		rec := Call("rr", Call("-", A("n"), I(1)))
		defs = append(defs, L(A("defmacro"), A("idm"), L(A("x")), A("x")))
		for i := r.Range(0, 2); i > 0; i-- {
			switch r.Intn(7) {
			case 0:
				rec = Call("get-default", Call("sorted-map"), A(":missing"), rec)
			case 1:
				rec = Call("idm", rec)
			case 2:
				rec = L(A("let"), L(L(A("q"), rec)), A("q"))
			case 3:
				rec = Call("progn", rec)
			case 4:
				rec = Call("funcall", L(A("lambda"), L(), rec))
			case 5:
				rec = Call("car", Call("list", rec))
			default:
				rec = Call("thread-first", rec, L(A("+"), I(0)))
			}
		}
		defs = append(defs, L(A("defun"), A("rr"), L(A("n")),
			Call("if", Call("<=", A("n"), I(0)), Call("sim:probe", QS("deep"), I(0)),
				Call("+", I(1), rec))))
		call = Call("rr", I(depth))
	case "nest":
		// depth levels of argument nesting; some levels may pass through a
		// nested load, whose forms are evaluated beneath the caller's levels
		cur := Call("sim:probe", QS("deep"), I(0))
		through := r.Chance(1, 2)
		for i := 0; i < depth; i++ {
			if through && i > 0 && r.Chance(1, 4) {
				if r.Bool() {
					cur = Call("load-string", Str(cur.String()))
				} else {
					cur = Call("load-bytes", Call("to-bytes", Str(cur.String())))
				}
			}
			cur = Call("+", I(1), cur)
		}
		call = cur
	case "tail":
		defs = append(defs, L(A("defun"), A("tt"), L(A("n"), A("acc")),
			Call("if", Call("<=", A("n"), I(0)), Call("sim:probe", QS("deep"), A("acc")),
				Call("tt", Call("-", A("n"), I(1)), Call("+", A("acc"), I(1))))))
		call = Call("tt", I(depth), I(0))
	case "tail-deep":
		// the same loop, but on up to three turns an argument of the tail call
		// is a non-tail recursion K frames deep (K straddling powers of two)
		defs = append(defs, L(A("defun"), A("dd"), L(A("k")),
			Call("if", Call("<=", A("k"), I(0)), I(0), Call("+", I(0), Call("dd", Call("-", A("k"), I(1)))))))
		extra := I(0)
		for i := r.Range(1, 3); i > 0; i-- {
			m := r.Range(1, depth)
			k := []int{1, 2, 3, 4, 5, 7, 9, 15, 17, 31, 33, 63, 65, 90}[r.Intn(14)]
			extra = Call("if", Call("=", A("n"), I(m)), Call("dd", I(k)), extra)
		}
		defs = append(defs, L(A("defun"), A("tt"), L(A("n"), A("acc")),
			Call("if", Call("<=", A("n"), I(0)), Call("sim:probe", QS("deep"), A("acc")),
				Call("tt", Call("-", A("n"), I(1)), Call("+", A("acc"), I(1), extra)))))
		call = Call("tt", I(depth), I(0))
	case "macro":
		defs = append(defs, L(A("defmacro"), A("ww"), L(A("n"), A("x")),
			Call("if", Call("<=", A("n"), I(0)), A("x"),
				Call("quasiquote", Call("ww", Call("unquote", Call("-", A("n"), I(1))), Call("+", I(1), Call("unquote", A("x"))))))))
		call = Call("ww", I(depth), Call("sim:probe", QS("deep"), I(0)))
	}
	// random wrapper that does not change the shape's known cost ordering
	switch r.Intn(4) {
	case 0:
		call = L(A("let"), L(L(A("zz"), I(1))), call)
	case 1:
		call = Call("progn", Call("sim:probe", QS("pre"), I(1)), call)
	case 2:
		call = Call("funcall", L(A("lambda"), L(), call))
	}
	if caught {
		call = L(A("handler-bind"),
			L(L(A("condition"), L(A("lambda"), L(A("c"), A("&rest"), A("d")), Call("sim:probe", QS("caught"), A("c"))))),
			call)
	}
	return append(defs, Call("sim:probe", QS("result"), call))
}

// meterProgram brackets a loop of known turn count c between two probes.
func meterProgram(r *Rand, c int) []*Node {
	var defs []*Node
	var loop *Node
	switch r.Intn(5) {
	case 0:
		loop = L(A("dotimes"), L(A("i"), I(c)))
	case 1:
		loop = L(A("dotimes"), L(A("i"), I(c)), A("i"))
	case 2:
		defs = append(defs, L(A("defun"), A("tt"), L(A("n")),
			Call("if", Call("<=", A("n"), I(0)), I(0), Call("tt", Call("-", A("n"), I(1))))))
		loop = Call("tt", I(c))
	case 3:
		loop = L(A("labels"), L(L(A("lp"), L(A("n")), Call("cond", L(Call("<=", A("n"), I(0)), I(0)), L(A(":else"), Call("lp", Call("-", A("n"), I(1))))))), Call("lp", I(c)))
	default:
		// nested empty loops: c turns in total
		a := 1
		for a*a <= c {
			a++
		}
		a--
		if a < 1 {
			a = 1
		}
		b := c / a
		rest := c - a*b
		loop = Call("progn", L(A("dotimes"), L(A("i"), I(a)), L(A("dotimes"), L(A("j"), I(b)))), L(A("dotimes"), L(A("k"), I(rest))))
	}
	return append(defs, Call("progn", Call("sim:probe", QS("a"), I(0)), loop, Call("sim:probe", QS("b"), I(0))))
}

func hasSwallow(forms []*Node) bool {
	for _, f := range forms {
		if f.ContainsSubstr("ignore-errors") || f.ContainsSubstr("handler-bind") {
			return true
		}
	}
	return false
}

var sentinelKinds = []string{"progn-quote", "let-string", "if-int", "dotimes-result", "progn-symbol", "cond-default", "labels-call", "progn-plain", "let*-float", "progn-keyword"}

func sentinelWrap(forms []*Node, kind string) []*Node {
	if kind == "" || len(forms) == 0 {
		return forms
	}
	out := append([]*Node(nil), forms...)
	f := forms[len(forms)-1]
	g := Call("ignore-errors", f)
	var w *Node
	switch kind {
	case "progn-quote":
		w = Call("progn", g, QS("zz-end"))
	case "let-string":
		w = Call("let", L(L(A("zq"), I(1))), g, Str("zz-end"))
	case "if-int":
		w = Call("if", g, I(1), I(2))
	case "dotimes-result":
		w = Call("dotimes", L(A("zi"), I(1), QS("zz-end")), g)
	case "progn-symbol":
		w = Call("progn", g, A("true"))
	case "cond-default":
		w = Call("cond", L(g, A("1.5")), L(A(":else"), A("2.5")))
	case "labels-call":
		w = Call("labels", L(L(A("zf"), L(), I(7))), g, Call("zf"))
	case "progn-plain":
		w = Call("progn", f, QS("zz-end"))
	case "let*-float":
		w = Call("let*", L(L(A("zq"), I(1))), g, A("2.5"))
	case "progn-keyword":
		w = Call("progn", g, A(":zz-end"))
	default:
		return forms
	}
	out[len(out)-1] = w
	return out
}

type limRun struct {
	w   *World
	out Outcome
}

func runLimits(k Knobs, budget int64, cancelAt int64, forms []*Node, faults []FaultSpec) (*limRun, error) {
	k.MaxSteps = budget
	k.UseSimCtx = true
	w, err := NewWorld(k)
	if err != nil {
		return nil, err
	}
	w.Faults = faults
	w.Ctx.CancelAt = cancelAt
	out := w.Load(forms)
	return &limRun{w: w, out: out}, nil
}

// run executes the case's program (or its host entry call) under a budget
// and a cancellation index.
func (c *LimitsCase) run(k Knobs, budget, cancelAt int64) (*limRun, error) {
	if c.Entry == nil {
		return runLimits(k, budget, cancelAt, sentinelWrap(c.Forms, c.Sentinel), c.Faults)
	}
	k.MaxSteps = hugeBudget
	k.UseSimCtx = false
	w, err := NewWorld(k)
	if err != nil {
		return nil, err
	}
	if o := w.Load(c.Prelude); o.IsErr {
		return nil, fmt.Errorf("entry prelude failed: %s", o.Result())
	}
	e := c.Entry
	fun := w.Env.Get(lisp.Symbol(e.Fun))
	if fun.Type != lisp.LFun {
		return nil, fmt.Errorf("entry function %s is not a function", e.Fun)
	}
	var args *lisp.LVal
	switch e.Kind {
	case "FunCall", "FunCallContext":
		o := w.LoadString("(list " + e.Args + ")")
		if o.IsErr || o.Val == nil {
			return nil, fmt.Errorf("entry arguments failed: %s", o.Result())
		}
		args = lisp.SExpr(append([]*lisp.LVal(nil), o.Val.Cells...))
	default:
		exprs, perr := parseOne("(zz " + e.Args + ")")
		if perr != nil {
			return nil, perr
		}
		args = lisp.SExpr(exprs.Cells[1:])
	}
	w.Events = nil
	ctx := NewSimCtx(w)
	ctx.CancelAt = cancelAt
	w.Ctx = ctx
	lisp.WithMaxSteps(budget)(w.Env)
	lisp.WithContext(ctx)(w.Env) // the non-Context entry points use the environment's own context
	out := w.Call(func() *lisp.LVal {
		switch e.Kind {
		case "FunCall":
			return w.Env.FunCall(fun, args)
		case "FunCallContext":
			return w.Env.FunCallContext(ctx, fun, args)
		case "SpecialOpCall":
			return w.Env.SpecialOpCall(fun, args)
		case "MacroCall":
			v := w.Env.MacroCall(fun, args)
			if v != nil && v.Type != lisp.LError {
				return lisp.Nil()
			}
			return v
		case "Eval":
			return w.Env.Eval(lisp.SExpr(append([]*lisp.LVal{lisp.Symbol(e.Fun)}, args.Cells...)))
		case "EvalContext":
			return w.Env.EvalContext(ctx, lisp.SExpr(append([]*lisp.LVal{lisp.Symbol(e.Fun)}, args.Cells...)))
		default:
			return w.Env.EvalSExpr(lisp.SExpr(append([]*lisp.LVal{lisp.Symbol(e.Fun)}, args.Cells...)))
		}
	})
	w.K.UseSimCtx = true // later loads (refill check) go through LoadStringContext with the live context
	return &limRun{w: w, out: out}, nil
}

func evHash(h Hash, evs []Event, out Outcome) Hash {
	for _, e := range evs {
		h = h.Str(e.Key()).Int(e.Steps)
	}
	return h.Str(out.Result()).Int(out.Steps)
}

func (e limitsEngine) Run(ci any, st *Stats) *Violation {
	c := ci.(*LimitsCase)
	switch c.Mode {
	case "general", "entry":
		return e.runGeneral(c, st)
	case "meter":
		return e.runMeter(c, st)
	default:
		return e.runStruct(c, st)
	}
}

func prefixBy(evs []Event, keep func(Event) bool) []Event {
	var out []Event
	for _, e := range evs {
		if keep(e) {
			out = append(out, e)
		}
	}
	return out
}

func cmpEvents(a, b []Event) string {
	if len(a) != len(b) {
		n := min(len(a), len(b))
		for i := 0; i < n; i++ {
			if a[i].Key() != b[i].Key() || a[i].Steps != b[i].Steps {
				return fmt.Sprintf("event %d differs: got %s want %s", i, a[i], b[i])
			}
		}
		return fmt.Sprintf("event count differs: got %d want %d", len(a), len(b))
	}
	for i := range a {
		if a[i].Key() != b[i].Key() || a[i].Steps != b[i].Steps {
			return fmt.Sprintf("event %d differs: got %s want %s", i, a[i], b[i])
		}
	}
	return ""
}

func (e limitsEngine) runGeneral(c *LimitsCase, st *Stats) *Violation {
	c.hintBudget, c.hintCancel = 0, 0
	ref, err := c.run(c.Knobs, hugeBudget, 0)
	if err != nil {
		if c.Entry != nil {
			return nil // a shrink candidate whose prelude or arguments no longer evaluate
		}
		return Violf("harness", "%v", err)
	}
	st.Runs++
	if ref.out.GoPanic != "" {
		return Violf("go-panic-escaped", "reference run: %s", ref.out.GoPanic)
	}
	if ref.w.MonViol != "" {
		return Violf("bound-exceeded", "reference run: %s", ref.w.MonViol)
	}
	N := ref.out.Steps
	P := ref.w.Ctx.Polls
	if N > refCap {
		st.Inc("discard_long")
		return nil
	}
	st.SimSteps += N
	st.Inc("programs")
	if ref.out.IsErr {
		st.Inc("ref_outcome_error")
	}
	for _, kind := range ref.w.Fired {
		st.Inc("fault_host_" + kind + "_in_program")
	}
	// oracle 7: every counted step polled the context
	for _, ev := range ref.w.Events {
		if ev.Steps != ev.Polls {
			return Violf("step-not-cancellable", "at probe %s: steps=%d but context polled %d times: a region counted steps without polling", ev.Key(), ev.Steps, ev.Polls)
		}
	}
	if N != P {
		return Violf("step-not-cancellable", "after run: steps=%d but context polled %d times", N, P)
	}
	swallow := (c.Sentinel != "" && c.Sentinel != "progn-plain" && c.Entry == nil) || hasSwallow(c.Forms) || hasSwallow(c.Prelude) || (c.Entry != nil && (strings.Contains(c.Entry.Args+" "+c.Entry.Fun, "ignore-errors") || strings.Contains(c.Entry.Args+" "+c.Entry.Fun, "handler-bind")))
	if c.Entry != nil {
		st.Inc("entry_" + c.Entry.Kind + "_" + c.Entry.Fun)
	}
	if swallow {
		st.Inc("programs_with_swallow")
	}

	var budgets, cancels []int64
	if len(c.Budgets) > 0 || len(c.Cancels) > 0 {
		budgets, cancels = c.Budgets, c.Cancels
	} else if c.Sweep && N <= 400 {
		for n := int64(1); n <= N+2; n++ {
			budgets = append(budgets, n)
		}
		for k := int64(1); k <= P+1; k++ {
			cancels = append(cancels, k)
		}
		st.Inc("programs_swept_exhaustively")
	} else {
		// sampled placements, biased to the edges and to steps where the
		// stack shape changed in the reference run
		edge := []int64{1, 2, N - 1, N, N + 1}
		for _, b := range edge {
			if b >= 1 {
				budgets = append(budgets, b)
				cancels = append(cancels, b)
			}
		}
		for i, p := range c.Picks {
			var pos int64
			if len(ref.w.Events) > 0 && i%3 == 0 {
				ev := ref.w.Events[int(p%uint64(len(ref.w.Events)))]
				pos = ev.Steps + int64(p>>40%3) - 1
			} else {
				pos = int64(p%uint64(N+1)) + 1
			}
			if pos < 1 {
				pos = 1
			}
			if i%2 == 0 {
				budgets = append(budgets, pos)
			} else {
				cancels = append(cancels, pos)
			}
		}
	}

	for _, n := range budgets {
		if v := e.checkBudget(c, st, ref, n, N, swallow); v != nil {
			c.hintBudget = n
			return v
		}
	}
	for _, k := range cancels {
		if v := e.checkCancel(c, st, ref, k, P, swallow); v != nil {
			c.hintCancel = k
			return v
		}
	}
	// a budget and a cancellation configured together: whichever comes first decides
	if !swallow && len(c.Budgets)+len(c.Cancels) == 0 && N > 2 {
		for i := 0; i+1 < len(c.Picks) && i < 8; i += 2 {
			n := int64(c.Picks[i]%uint64(N)) + 1
			k := int64(c.Picks[i+1]%uint64(N)) + 1
			run, err := c.run(c.Knobs, n, k)
			if err != nil {
				return Violf("harness", "%v", err)
			}
			st.Runs++
			st.Inc("fault_budget_and_cancel_together")
			failStep := min(k, n+1) // the step that does not succeed
			wantCond := lisp.CondContextCancelled
			if n+1 <= k {
				wantCond = lisp.CondStepLimitExceeded // the budget is tested before the context is polled
			}
			if failStep > N {
				continue
			}
			got := prefixBy(run.w.Events, func(ev Event) bool { return true })
			want := prefixBy(ref.w.Events, func(ev Event) bool { return ev.Steps < failStep })
			if d := cmpEvents(got, want); d != "" {
				return Violf("budget-and-cancel", "budget %d with cancellation at poll %d: %s", n, k, d)
			}
			if run.out.Cond != wantCond {
				return Violf("budget-and-cancel", "budget %d with cancellation at poll %d of %d steps: outcome %q, want %s", n, k, N, run.out.Result(), wantCond)
			}
		}
	}
	return nil
}

func (e limitsEngine) checkBudget(c *LimitsCase, st *Stats, ref *limRun, n, N int64, swallow bool) *Violation {
	run, err := c.run(c.Knobs, n, 0)
	if err != nil {
		return Violf("harness", "%v", err)
	}
	st.Runs++
	st.SimSteps += min(n, N)
	if run.out.GoPanic != "" {
		return Violf("go-panic-escaped", "budget %d: %s", n, run.out.GoPanic)
	}
	if run.w.MonViol != "" {
		return Violf("bound-exceeded", "budget %d: %s", n, run.w.MonViol)
	}
	exhausted := n < N
	if exhausted {
		st.Inc("fault_budget_fired")
		st.NoteHash(evHash(NewHash().Str("b"), run.w.Events, run.out), true)
		noteLanding(st, "budget", ref, n)
	} else {
		st.NoteHash(evHash(NewHash().Str("b"), run.w.Events, run.out), false)
	}
	// 2. truncation: events stamped <= n are exactly the reference's
	got := prefixBy(run.w.Events, func(ev Event) bool { return ev.Steps <= n })
	want := prefixBy(ref.w.Events, func(ev Event) bool { return ev.Steps <= n })
	if d := cmpEvents(got, want); d != "" {
		return Violf("budget-truncation", "budget %d of %d: %s", n, N, d)
	}
	// 3. no step succeeds after exhaustion
	if wantPolls := min(n, N); run.w.Ctx.Polls != wantPolls {
		return Violf("step-after-exhaustion", "budget %d of %d: context polled %d times, want %d", n, N, run.w.Ctx.Polls, wantPolls)
	}
	if !exhausted {
		// 4a. identical outcome
		if run.out.Result() != ref.out.Result() || run.out.Steps != ref.out.Steps || run.out.Stderr != ref.out.Stderr {
			return Violf("budget-sufficient-differs", "budget %d >= %d steps needed: got %q steps=%d, unlimited run gave %q steps=%d", n, N, run.out.Result(), run.out.Steps, ref.out.Result(), ref.out.Steps)
		}
		if d := cmpEvents(run.w.Events, ref.w.Events); d != "" {
			return Violf("budget-sufficient-differs", "budget %d >= %d: %s", n, N, d)
		}
	} else {
		if !swallow {
			if run.out.Cond != lisp.CondStepLimitExceeded || run.out.IsPanic {
				return Violf("budget-outcome", "budget %d of %d, no swallowing form: outcome %q, want step-limit-exceeded", n, N, run.out.Result())
			}
			if len(run.w.Events) != len(got) {
				return Violf("effect-after-exhaustion", "budget %d of %d: %d probe events after the budget ran out", n, N, len(run.w.Events)-len(got))
			}
		} else if run.out.Cond != lisp.CondStepLimitExceeded {
			st.Inc("reach_exhaustion_swallowed")
		}
		if c.Sentinel != "" && c.Entry == nil {
			st.Inc("reach_exhaustion_before_sentinel_step")
			if !run.out.IsErr {
				return Violf("value-after-exhaustion", "budget %d of %d: the run ended with the value %q although the %s sentinel needs a step after the budget ran out", n, N, run.out.Result(), c.Sentinel)
			}
		}
	}
	// 5a. the smallest possible top-level evaluations (a literal, a symbol)
	// are top-level evaluations too: each starts with a full budget
	if n >= 2 {
		for _, probe := range []struct {
			what string
			f    func() *lisp.LVal
			want string
		}{
			{"Eval of the literal 7", func() *lisp.LVal { return run.w.Env.Eval(lisp.Int(7)) }, "7"},
			{"Eval of the symbol true", func() *lisp.LVal { return run.w.Env.Eval(lisp.Symbol("true")) }, "true"},
			{"EvalContext of the literal 7", func() *lisp.LVal { return run.w.Env.EvalContext(NewSimCtx(run.w), lisp.Int(7)) }, "7"},
		} {
			o := run.w.Call(probe.f)
			st.Runs++
			if o.Result() != probe.want {
				return Violf("budget-not-refilled", "after P under budget %d (exhausted=%v), %s gave %q", n, exhausted, probe.what, o.Result())
			}
			if o.Steps != 1 {
				return Violf("budget-not-refilled", "after P under budget %d, %s reports %d steps, want 1", n, probe.what, o.Steps)
			}
		}
	}
	// 5. refill: the next top-level evaluation starts with a full budget
	if len(c.Forms2) > 0 {
		twin, err := c.run(c.Knobs, n, 0)
		if err != nil {
			return Violf("harness", "%v", err)
		}
		st.Runs += 2
		if c.EmptyBetween {
			// loads of nothing are top-level evaluations too and must not disturb the budget
			for _, ww := range []*World{twin.w, run.w} {
				ww.LoadString("")
				ww.LoadString("; only a comment")
				ww.LoadString("(ignore-errors (load-string \"\"))")
			}
		}
		lisp.WithMaxSteps(hugeBudget)(twin.w.Env)
		evFrom := len(twin.w.Events)
		tout := twin.w.Load(c.Forms2)
		evFrom2 := len(run.w.Events)
		pollsBefore := run.w.Ctx.Polls
		rout := run.w.Load(c.Forms2)
		n2 := tout.Steps
		if n2 <= n {
			if rout.Result() != tout.Result() || rout.Steps != tout.Steps {
				return Violf("budget-not-refilled", "after P under budget %d (exhausted=%v), P2 needs %d steps: got %q steps=%d, with a non-binding budget %q steps=%d",
					n, exhausted, n2, rout.Result(), rout.Steps, tout.Result(), tout.Steps)
			}
			if d := cmpEvents(relEvents(run.w.Events[evFrom2:]), relEvents(twin.w.Events[evFrom:])); d != "" {
				return Violf("budget-not-refilled", "after P under budget %d, P2 trace: %s", n, d)
			}
			st.Inc("refill_checked")
		} else if polls := run.w.Ctx.Polls - pollsBefore; polls != n {
			return Violf("budget-not-refilled", "after P under budget %d, P2 needs %d steps: it polled %d times, want exactly %d", n, n2, polls, n)
		}
	}
	return nil
}

func relEvents(evs []Event) []Event {
	out := make([]Event, len(evs))
	copy(out, evs)
	for i := range out {
		out[i].Seq, out[i].Polls = 0, 0
	}
	return out
}

func (e limitsEngine) checkCancel(c *LimitsCase, st *Stats, ref *limRun, k, P int64, swallow bool) *Violation {
	run, err := c.run(c.Knobs, hugeBudget, k)
	if err != nil {
		return Violf("harness", "%v", err)
	}
	st.Runs++
	st.SimSteps += min(k, P)
	if run.out.GoPanic != "" {
		return Violf("go-panic-escaped", "cancel at poll %d: %s", k, run.out.GoPanic)
	}
	if run.w.MonViol != "" {
		return Violf("bound-exceeded", "cancel at poll %d: %s", k, run.w.MonViol)
	}
	fired := k <= P
	if fired {
		st.Inc("fault_cancel_fired")
		noteLanding(st, "cancel", ref, k)
	}
	st.NoteHash(evHash(NewHash().Str("c"), run.w.Events, run.out), fired)
	got := prefixBy(run.w.Events, func(ev Event) bool { return ev.Polls < k })
	want := prefixBy(ref.w.Events, func(ev Event) bool { return ev.Polls < k })
	if d := cmpEvents(got, want); d != "" {
		return Violf("cancel-truncation", "cancel at poll %d of %d: %s", k, P, d)
	}
	if !fired {
		if run.out.Result() != ref.out.Result() || run.out.Steps != ref.out.Steps {
			return Violf("cancel-unfired-differs", "cancel at %d > %d polls: got %q want %q", k, P, run.out.Result(), ref.out.Result())
		}
		return nil
	}
	if !swallow {
		if run.out.Cond != lisp.CondContextCancelled || run.out.IsPanic {
			return Violf("cancel-outcome", "cancel at poll %d of %d, no swallowing form: outcome %q, want context-cancelled", k, P, run.out.Result())
		}
		if len(run.w.Events) != len(got) {
			return Violf("effect-after-cancel", "cancel at poll %d of %d: %d probe events after cancellation: %s", k, P, len(run.w.Events)-len(got), run.w.Events[len(got)])
		}
		if run.w.Ctx.Polls != k {
			return Violf("step-after-cancel", "cancel at poll %d: context polled %d times, evaluation continued stepping after cancellation", k, run.w.Ctx.Polls)
		}
	}
	if c.Sentinel != "" && c.Entry == nil {
		st.Inc("reach_cancel_before_sentinel_step")
		if !run.out.IsErr {
			return Violf("value-after-cancel", "cancel at poll %d of %d: the run ended with the value %q although the %s sentinel needs a step after the cancellation", k, P, run.out.Result(), c.Sentinel)
		}
	}
	// after a cancelled evaluation the runtime is usable with a live context
	if len(c.Forms2) > 0 {
		run.w.Ctx = NewSimCtx(run.w)
		o2 := run.w.Load(c.Forms2)
		if o2.GoPanic != "" {
			return Violf("go-panic-escaped", "P2 after cancel: %s", o2.GoPanic)
		}
		if o2.Cond == lisp.CondContextCancelled || o2.Cond == lisp.CondStepLimitExceeded {
			return Violf("runtime-unusable-after-cancel", "P2 after cancel at poll %d ended with %q", k, o2.Result())
		}
	}
	return nil
}

// noteLanding records in which kind of region the fault landed, using the
// reference trace around the placement (reach probes).
func noteLanding(st *Stats, kind string, ref *limRun, pos int64) {
	// nearest preceding event
	var prev *Event
	for i := range ref.w.Events {
		if ref.w.Events[i].Steps <= pos {
			prev = &ref.w.Events[i]
		} else {
			break
		}
	}
	if prev == nil {
		st.Inc("landing_" + kind + "_before_first_probe")
		return
	}
	switch {
	case prev.Frames >= 6:
		st.Inc("landing_" + kind + "_deep_stack")
	case prev.Frames >= 2:
		st.Inc("landing_" + kind + "_in_call")
	default:
		st.Inc("landing_" + kind + "_toplevel")
	}
}

// runMeter checks the metering law on a loop of known turn count.
func (e limitsEngine) runMeter(c *LimitsCase, st *Stats) *Violation {
	ref, err := runLimits(c.Knobs, hugeBudget, 0, c.Forms, nil)
	if err != nil {
		return Violf("harness", "%v", err)
	}
	st.Runs++
	st.Inc("meter_programs")
	if len(ref.w.Events) != 2 || ref.out.IsErr {
		return Violf("harness", "meter program did not produce both probes: %v %q", EventKeys(ref.w.Events), ref.out.Result())
	}
	a, b := ref.w.Events[0], ref.w.Events[1]
	turns := int64(c.Depth)
	if b.Steps-a.Steps < turns || b.Polls-a.Polls < turns {
		return Violf("loop-not-metered", "a loop of %d turns advanced the step counter by %d and polled the context %d times", turns, b.Steps-a.Steps, b.Polls-a.Polls)
	}
	st.SimSteps += ref.out.Steps
	// any budget / cancellation inside the loop prevents the closing probe
	for _, pos := range []int64{a.Steps + 1, a.Steps + turns/2 + 1, a.Steps + turns} {
		for _, kind := range []string{"budget", "cancel"} {
			var run *limRun
			if kind == "budget" {
				run, err = runLimits(c.Knobs, pos, 0, c.Forms, nil)
			} else {
				run, err = runLimits(c.Knobs, hugeBudget, pos, c.Forms, nil)
			}
			if err != nil {
				return Violf("harness", "%v", err)
			}
			st.Runs++
			st.Inc("fault_" + kind + "_fired")
			st.NoteHash(evHash(NewHash().Str("m"+kind), run.w.Events, run.out), true)
			if len(run.w.Events) != 1 || !run.out.IsErr {
				c.hintBudget = pos
				return Violf("loop-not-interruptible", "%s at %d inside a %d-turn loop (loop spans steps %d..%d): closing probe reached, outcome %q", kind, pos, turns, a.Steps, b.Steps, run.out.Result())
			}
		}
	}
	return nil
}

// runStruct sweeps one structural limit over a program of known shape.
func (e limitsEngine) runStruct(c *LimitsCase, st *Stats) *Violation {
	c.hintLimit = 0
	base := c.Knobs
	ref, err := runLimits(base, hugeBudget, 0, c.Forms, nil)
	if err != nil {
		return Violf("harness", "%v", err)
	}
	st.Runs++
	st.Inc("struct_programs_" + c.Mode)
	if ref.out.IsErr {
		return Violf("harness", "unlimited run of structural program failed: %q", ref.out.Result())
	}
	st.SimSteps += ref.out.Steps
	// sweep the limit from 1 to just beyond what the unlimited run actually used
	lo, hi := 1, c.MaxLim
	switch c.Mode {
	case "phys":
		hi = ref.w.MaxFrames + 3
	case "physlogic":
		hi = ref.w.MaxFrames + 6
	case "nest":
		hi = ref.w.MaxNest + 3
	}
	if hi > 400 {
		hi = 400
	}
	seenOK, seenCaught := false, false
	firstOK := 0
	for lim := lo; lim <= hi; lim++ {
		k := base
		switch c.Mode {
		case "phys":
			k.MaxPhys = lim
		case "nest":
			k.MaxNest = lim
		case "tail":
			k.MaxTail = lim
		case "macro":
			k.MaxMacro = lim
		case "logical":
			k.MaxLogic = lim
		case "physlogic":
			k.MaxPhys = lim
			k.MaxLogic = max(1, lim+c.Delta)
		}
		run, err := runLimits(k, hugeBudget, 0, c.Forms, nil)
		if err != nil {
			return Violf("harness", "%v", err)
		}
		st.Runs++
		fail := func(v *Violation) *Violation { c.hintLimit = lim; return v }
		if run.out.GoPanic != "" {
			return fail(Violf("go-panic-escaped", "%s limit %d: %s", c.Mode, lim, run.out.GoPanic))
		}
		if run.w.MonViol != "" {
			return fail(Violf("bound-exceeded", "%s limit %d: %s", c.Mode, lim, run.w.MonViol))
		}
		overflowed := false
		var errv *lisp.LVal
		caughtEv := false
		if c.Caught {
			for _, ev := range run.w.Events {
				if ev.Tag == "caught" {
					overflowed, caughtEv = true, true
				}
			}
			if !caughtEv && run.out.IsErr {
				// the limit is so low that the handler itself cannot be entered
				overflowed = true
				if seenCaught {
					return fail(Violf("limit-error-not-catchable", "%s limit %d: the overflow escaped handler-bind although it was caught at a lower limit: %q", c.Mode, lim, run.out.Result()))
				}
			}
			if caughtEv {
				seenCaught = true
				st.Inc("reach_limit_" + c.Mode + "_caught_by_handler")
			}
		} else if run.out.IsErr {
			overflowed = true
			errv = run.out.Val
		}
		if overflowed {
			st.Inc("fault_limit_" + c.Mode + "_fired")
			st.NoteHash(evHash(NewHash().Str(c.Mode).Int(int64(lim)), run.w.Events, run.out), true)
			if seenOK {
				return fail(Violf("limit-not-monotone", "%s limit %d overflows although limit %d succeeded", c.Mode, lim, firstOK))
			}
			if run.out.IsPanic {
				return fail(Violf("limit-error-not-ordinary", "%s limit %d: overflow surfaced as a host panic: %q", c.Mode, lim, run.out.Result()))
			}
			if c.Caught {
				if run.out.IsErr && caughtEv {
					return fail(Violf("limit-error-not-catchable", "%s limit %d: handler-bind caught the overflow but the evaluation still failed: %q", c.Mode, lim, run.out.Result()))
				}
			} else {
				if c.Mode == "phys" && errv != nil {
					if cs := errv.CallStack(); cs == nil || len(cs.Frames) != lim {
						n := -1
						if cs != nil {
							n = len(cs.Frames)
						}
						return fail(Violf("phys-limit-inexact", "physical limit %d: the overflow error carries %d frames, want exactly %d (refused while pushing frame %d)", lim, n, lim, lim+1))
					}
				}
				if c.Mode == "nest" && run.w.MaxNest > lim+1 {
					return fail(Violf("bound-exceeded", "nesting limit %d: observed nesting %d", lim, run.w.MaxNest))
				}
			}
			// the runtime is still usable and the budget/stack are clean
			follow := "(sim:probe 'after 3)"
			if c.Mode == "nest" {
				follow = "3" // anything nested would itself exceed a tiny nesting limit
			}
			o2 := run.w.LoadString(follow)
			if o2.Result() != "3" {
				return fail(Violf("runtime-unusable-after-limit", "%s limit %d: a following evaluation returned %q", c.Mode, lim, o2.Result()))
			}
			if len(run.w.RT.Stack.Frames) != 0 || run.w.RT.EvalNesting() != 0 {
				return fail(Violf("runtime-unusable-after-limit", "%s limit %d: %d frames, nesting %d left behind", c.Mode, lim, len(run.w.RT.Stack.Frames), run.w.RT.EvalNesting()))
			}
		} else {
			if run.out.IsErr {
				return fail(Violf("harness", "%s limit %d: unexpected error %q", c.Mode, lim, run.out.Result()))
			}
			if !seenOK {
				seenOK, firstOK = true, lim
			}
			if run.out.Result() != ref.out.Result() || run.out.Steps != ref.out.Steps {
				return fail(Violf("limit-sufficient-differs", "%s limit %d does not bind, yet result %q steps=%d differs from unlimited %q steps=%d", c.Mode, lim, run.out.Result(), run.out.Steps, ref.out.Result(), ref.out.Steps))
			}
			if d := cmpEvents(run.w.Events, ref.w.Events); d != "" {
				return fail(Violf("limit-sufficient-differs", "%s limit %d: %s", c.Mode, lim, d))
			}
			st.NoteHash(evHash(NewHash().Str(c.Mode).Int(int64(lim)), run.w.Events, run.out), false)
		}
		// exactness where the documentation states the threshold
		if c.Mode == "tail" {
			// a loop of Depth tail calls succeeds iff MaxTailIterations >= Depth
			if want := lim < c.Depth; overflowed != want {
				return fail(Violf("tail-limit-inexact", "tail loop of %d turns under MaxTailIterations %d: overflowed=%v, want %v", c.Depth, lim, overflowed, want))
			}
		}
		if c.Mode == "nest" && !overflowed && lim < c.Depth {
			// every one of the Depth argument levels is evaluated inside the
			// evaluation of the level around it
			return fail(Violf("nest-limit-not-enforced", "an expression nested %d levels deep (some through nested loads) finished under MaxEvalNesting %d", c.Depth, lim))
		}
		if (c.Mode == "phys" || c.Mode == "physlogic") && run.w.MaxFrames > lim {
			return fail(Violf("bound-exceeded", "physical limit %d: observed %d frames", lim, run.w.MaxFrames))
		}
	}
	if !seenOK {
		return Violf("harness", "%s: no limit up to %d let the program finish", c.Mode, c.MaxLim)
	}
	return nil
}

func (e limitsEngine) Shrink(ci any) []any {
	c := ci.(*LimitsCase)
	var out []any
	cp := func() *LimitsCase {
		d := *c
		d.hintBudget, d.hintCancel, d.hintLimit = 0, 0, 0
		return &d
	}
	if c.Mode != "general" && c.Mode != "entry" {
		return nil
	}
	// pin the failing placement
	if c.hintBudget > 0 && !(len(c.Budgets) == 1 && len(c.Cancels) == 0) {
		d := cp()
		d.Budgets, d.Cancels, d.Sweep, d.Picks = []int64{c.hintBudget}, nil, false, nil
		out = append(out, d)
	}
	if c.hintCancel > 0 && !(len(c.Cancels) == 1 && len(c.Budgets) == 0) {
		d := cp()
		d.Budgets, d.Cancels, d.Sweep, d.Picks = nil, []int64{c.hintCancel}, false, nil
		out = append(out, d)
	}
	pinned := len(c.Budgets)+len(c.Cancels) == 1
	if c.Sentinel != "" {
		d := cp()
		d.Sentinel = ""
		out = append(out, d)
	}
	if len(c.Forms2) > 0 {
		d := cp()
		d.Forms2 = nil
		out = append(out, d)
	}
	for j := range c.Faults {
		d := cp()
		d.Faults = append(append([]FaultSpec(nil), c.Faults[:j]...), c.Faults[j+1:]...)
		out = append(out, d)
	}
	if c.Knobs != (Knobs{UseSimCtx: true}) {
		d := cp()
		d.Knobs = Knobs{UseSimCtx: true}
		out = append(out, d)
	}
	for _, f := range ShrinkForms(c.Prelude, 300) {
		if c.Entry == nil {
			break
		}
		d := cp()
		d.Prelude = f
		if pinned {
			d.Budgets, d.Cancels, d.Sweep = nil, nil, true
		}
		out = append(out, d)
	}
	for _, f := range ShrinkForms(c.Forms, 400) {
		if c.Entry != nil {
			break
		}
		d := cp()
		d.Forms = f
		if pinned {
			// the placement moves when the program shrinks: try sweeping
			d.Budgets, d.Cancels, d.Sweep = nil, nil, true
		}
		out = append(out, d)
	}
	return out
}
