package sim

import (
	"bytes"
	"context"
	"encoding/json"
	"errors"
	"fmt"
	"io"
	"strings"

	"github.com/luthersystems/elps/lisp"
	"github.com/luthersystems/elps/parser"
)

// Engine E2 `history` — property C05: a runtime is left clean after every
// top-level evaluation, successful or not.

type HistOp struct {
	Entry        string      `json:"entry"`
	Forms        []*Node     `json:"forms,omitempty"`
	Fun          string      `json:"fun,omitempty"` // "pkg:name" for FunCall entries
	Budget       int64       `json:"budget,omitempty"`
	CancelAt     int64       `json:"cancel_at,omitempty"`
	Faults       []FaultSpec `json:"faults,omitempty"`
	MaxPhys      int         `json:"max_phys,omitempty"`
	MaxNest      int         `json:"max_nest,omitempty"`
	MaxTail      int         `json:"max_tail,omitempty"`
	MaxAlloc     int         `json:"max_alloc,omitempty"`
	Chunk        int         `json:"chunk,omitempty"`
	ReadFailAt   int         `json:"read_fail_at,omitempty"`
	StderrFailAt int         `json:"stderr_fail_at,omitempty"` // the n-th write to Runtime.Stderr fails
	// CancelAfter: the host cancels the operation's context once the entry
	// point has returned (the usual `defer cancel()`); nothing evaluated
	// later may consult it
	CancelAfter bool `json:"cancel_after,omitempty"`
}

func (o HistOp) faultFree() bool {
	return o.StderrFailAt == 0 && o.Budget == 0 && o.CancelAt == 0 && len(o.Faults) == 0 && o.MaxPhys == 0 && o.MaxNest == 0 && o.MaxTail == 0 && o.MaxAlloc == 0 && o.ReadFailAt == 0
}

type HistCase struct {
	Knobs Knobs    `json:"knobs"`
	Ops   []HistOp `json:"ops"`
}

type historyEngine struct{}

func init() { Register(historyEngine{}) }

func (historyEngine) Name() string     { return "history" }
func (historyEngine) Property() string { return "C05" }
func (historyEngine) NumCases(tier string) int {
	if tier == "thorough" {
		return 250000
	}
	return 12000
}
func (historyEngine) Decode(raw []byte) (any, error) {
	c := &HistCase{}
	return c, json.Unmarshal(raw, c)
}

const histSafetyCap = 300000

var histPkgs = []string{"user", "pa", "pb"}

const histSetup = `(in-package 'pa) (in-package 'pb) (in-package 'user)
(set 'm0 (sorted-map)) (set 'vec0 (vector)) (set 'b0 (to-bytes "ab"))`

// histGen carries generator-side bookkeeping across the operations of one
// history.
type histGen struct {
	r    *Rand
	opN  int
	valN int
	fpN  int
	funs []string // qualified names of functions some earlier op tried to define
}

func (h *histGen) stateOp(g *PGen) *Node {
	h.opN++
	h.valN++
	v := 1000 + h.valN
	pkg := g.CurPkg
	if pkg == "" {
		pkg = "user"
	}
	var op string
	switch g.r.Pick([]int{5, 2, 3, 2, 1, 2, 1, 1, 1, 1}) {
	case 0:
		op = fmt.Sprintf("(set 'g%d %d)", g.r.Intn(4), v)
	case 1:
		op = fmt.Sprintf("(set! g%d %d)", g.r.Intn(4), v)
	case 2:
		name := fmt.Sprintf("f%d", g.r.Intn(3))
		h.fpN++
		body := fmt.Sprintf("(sim:probe 'in-%s (sim:fp %d %d))", name, 500+h.fpN, v)
		if g.r.Bool() {
			// fault point in a non-final body form
			body = fmt.Sprintf("(sim:fp %d 0) (sim:probe 'in-%s %d)", 500+h.fpN, name, v)
		}
		switch g.r.Intn(5) {
		case 0:
			body = fmt.Sprintf("(if true (progn %s) ())", body)
		case 1:
			body = fmt.Sprintf("(let ((zq 1)) %s)", body)
		case 2:
			body = fmt.Sprintf("(cond ((= 1 1) %s) (:else ()))", body)
		}
		op = fmt.Sprintf("(defun %s () %s)", name, body)
		h.funs = append(h.funs, pkg+":"+name)
	case 3:
		op = fmt.Sprintf("(assoc! user:m0 'k%d %d)", g.r.Intn(4), v)
	case 4:
		op = fmt.Sprintf("(dissoc! user:m0 'k%d)", g.r.Intn(4))
	case 5:
		op = fmt.Sprintf("(append! user:vec0 %d)", v)
	case 7:
		op = fmt.Sprintf("(append! user:b0 %d)", v%200)
	case 8:
		// refused as a whole: an element in the middle or at the end is not a byte
		op = PickStr(g.r, []string{
			fmt.Sprintf("(ignore-errors (append! user:b0 %d %d 300))", v%200, (v+1)%200),
			fmt.Sprintf("(ignore-errors (append-bytes! user:b0 (list %d 999 %d)))", v%200, (v+1)%200),
			fmt.Sprintf("(ignore-errors (append-bytes! user:b0 (vector %d %d -1)))", v%200, (v+1)%200),
			fmt.Sprintf("(ignore-errors (append! user:vec0 %d (error 'stop 1)))", v),
			fmt.Sprintf("(ignore-errors (assoc! user:m0 'k%d (error 'stop 1)))", g.r.Intn(4)),
		})
	case 9:
		op = fmt.Sprintf("(append-bytes! user:b0 \"%c%c\")", 'a'+v%26, 'a'+(v+3)%26)
	default:
		op = fmt.Sprintf("(export 'g%d)", g.r.Intn(4))
	}
	// optionally make the operation's value pass through a fault point, so a
	// fault can land inside the operation itself
	if g.r.Chance(1, 4) && strings.HasPrefix(op, "(set 'g") {
		h.fpN++
		op = fmt.Sprintf("(set 'g%d (sim:fp %d %d))", g.r.Intn(4), 500+h.fpN, v)
	}
	// The whole acknowledged block is ONE atom: the shrinker can drop it but
	// never take it apart, so the text in the begin probe always matches.
	return A(fmt.Sprintf("(progn (sim:probe 'begin %d %s) %s (sim:probe 'end %d))", h.opN, LispString(op), op, h.opN))
}

func (historyEngine) Gen(r *Rand, tier string) any {
	c := &HistCase{}
	c.Knobs.Stdlib = r.Chance(1, 12)
	c.Knobs.TRO = PickStr(r, []string{"", "", "debugger", "profiler"})
	if r.Chance(1, 4) {
		// a tail-iteration limit that stays for the whole history: tail loops
		// in successive evaluations must each get the full allowance
		c.Knobs.MaxTail = r.Range(8, 40)
	}
	h := &histGen{r: r}
	nops := r.Range(2, 6)
	for i := 0; i < nops; i++ {
		op := HistOp{}
		op.Entry = PickStr(r, []string{"LoadString", "LoadString", "LoadStringContext", "LoadStringContext", "Load", "LoadContext",
			"Eval", "EvalContext", "EvalSExpr", "SpecialOpCall", "LoadProgram", "LoadProgramContext", "FunCall", "FunCallContext", "MacroCall",
			"FunCallHostPanic", "EmptyLoad", "LoadFile", "LoadFileContext", "LoadLocation", "LoadLocationContext"})
		if (op.Entry == "FunCall" || op.Entry == "FunCallContext") && len(h.funs) == 0 {
			op.Entry = "LoadStringContext"
		}
		switch op.Entry {
		case "FunCall", "FunCallContext":
			op.Fun = PickStr(r, h.funs)
		case "FunCallHostPanic":
			// the host calls a builtin whose callback is host code that panics:
			// no evaluator frame is in between, the panic reaches the host
			op.Fun = PickStr(r, []string{"funcall", "apply", "map"})
			c.Ops = append(c.Ops, op)
			continue
		case "EmptyLoad":
			// a load of nothing (empty or comment-only source) is a top-level evaluation too
			op.Entry = PickStr(r, []string{"LoadString", "LoadStringContext", "LoadProgram"})
			op.Forms = []*Node{A(PickStr(r, []string{"", "; nothing here", "   "}))}
			if r.Bool() {
				op.Forms = []*Node{Call("ignore-errors", Call("load-string", Str(PickStr(r, []string{"", "; c"})))), A("1")}
			}
			c.Ops = append(c.Ops, op)
			continue
		default:
			o := GenOpts{Swallow: r.Chance(2, 3), Errors: r.Chance(1, 3), LoadStr: r.Chance(2, 3), Macros: r.Chance(1, 3),
				Callbacks: r.Chance(1, 2), FP: true, Packages: true, Stderr: r.Chance(1, 3), Budget: r.Range(20, 90), MaxFuel: r.Range(2, 5)}
			g := NewPGen(r.Fork(), o)
			g.fpN = i * 40
			g.symN = i * 1000
			g.probeN = i * 1000
			g.Pkgs = []string{"pa", "pb"}
			g.CurPkg = "user"
			g.StateOp = h.stateOp
			for _, f := range h.funs {
				g.funs = append(g.funs, funSig{f, "nullary"})
			}
			loadEntry := strings.HasPrefix(op.Entry, "Load")
			var forms []*Node
			if loadEntry {
				forms = g.Defs(3)
				if r.Chance(1, 3) {
					// a load that switches package at top level
					g.CurPkg = PickStr(r, g.Pkgs)
					g.globs, g.funs, g.macros = nil, nil, nil
					forms = append(forms, Call("in-package", QS(g.CurPkg)))
				}
			}
			n := r.Range(1, 3)
			for j := 0; j < n; j++ {
				if r.Chance(2, 3) {
					forms = append(forms, h.stateOp(g))
				}
				forms = append(forms, g.Probe(g.E(r.Range(2, 4))))
			}
			if r.Chance(1, 6) {
				forms = append(forms, cbCountForm(r))
			}
			if c.Knobs.MaxTail > 0 && r.Chance(1, 2) {
				// a tail loop that uses most of the (history-wide) tail-iteration allowance
				name := fmt.Sprintf("tt%d", i)
				k := r.Range(c.Knobs.MaxTail/2, c.Knobs.MaxTail)
				forms = append(forms,
					L(A("defun"), A(name), L(A("n"), A("acc")), Call("if", Call("<=", A("n"), I(0)), A("acc"), Call(name, Call("-", A("n"), I(1)), Call("+", A("acc"), I(1))))),
					Call("sim:probe", QS("loop"), Call(name, I(k), I(0))))
			}
			op.Forms = forms
		}
		// fault points that exist in this operation (or in functions it may call)
		var avail []int
		if len(op.Forms) > 0 {
			for id := i*40 + 1; id <= i*40+39; id++ {
				if src := Src(op.Forms); strings.Contains(src, fmt.Sprintf("sim:fp %d ", id)) || strings.Contains(src, fmt.Sprintf("(sim:fpo %d ", id)) {
					avail = append(avail, id)
				}
			}
		}
		for id := 501; id <= 500+h.fpN; id++ {
			avail = append(avail, id)
		}
		if src := Src(op.Forms); strings.Contains(src, "sim:hf1") {
			avail = append(avail, 91)
		} else if strings.Contains(src, "sim:hf2") {
			avail = append(avail, 92)
		}
		histFaults := func(r *Rand, n int) []FaultSpec { return histFaultsFrom(r, n, avail) }
		// a structural overflow: recursion of known depth whose levels push a
		// mix of frame kinds, under a physical limit that lands the refused
		// push on any of them (sometimes contained by a handler)
		if len(op.Forms) > 0 && r.Chance(1, 8) {
			depth := r.Range(2, 9)
			sp := structProgram(r.Fork(), "phys", depth, r.Bool())
			op.Forms = append(op.Forms, sp...)
			op.MaxPhys = r.Range(1, depth*4+6)
			c.Ops = append(c.Ops, op)
			continue
		}
		// fault plan
		switch r.Pick([]int{30, 14, 14, 18, 8, 6, 6, 4}) {
		case 0: // none
		case 1:
			op.Budget = int64(r.Range(1, 160))
		case 2:
			op.CancelAt = int64(r.Range(1, 160))
			if !strings.HasSuffix(op.Entry, "Context") {
				op.Entry = map[string]string{"LoadString": "LoadStringContext", "Load": "LoadContext", "Eval": "EvalContext",
					"EvalSExpr": "EvalContext", "SpecialOpCall": "EvalContext", "LoadProgram": "LoadProgramContext", "LoadFile": "LoadFileContext", "LoadLocation": "LoadLocationContext",
					"FunCall": "FunCallContext", "MacroCall": "LoadStringContext"}[op.Entry]
			}
		case 3:
			op.Faults = histFaults(r, 1)
		case 4:
			op.Faults = histFaults(r, 2) // an error while handling an error
		case 5:
			op.Faults = histFaults(r, 1)
			op.Budget = int64(r.Range(1, 160))
		case 6:
			switch r.Intn(3) {
			case 0:
				op.MaxPhys = r.Range(1, 12)
			case 1:
				op.MaxNest = r.Range(2, 30)
			default:
				op.MaxTail = r.Range(1, 6)
			}
		default:
			op.MaxAlloc = r.Range(1, 4)
		}
		if len(op.Forms) > 0 && r.Chance(1, 10) && strings.Contains(Src(op.Forms), "debug-") {
			op.StderrFailAt = r.Range(1, 3)
		}
		if strings.HasSuffix(op.Entry, "Context") && r.Chance(2, 3) {
			op.CancelAfter = true
		}
		if op.Entry == "Load" || op.Entry == "LoadContext" || op.Entry == "LoadLocation" || op.Entry == "LoadLocationContext" {
			op.Chunk = r.Pick([]int{1, 1, 1}) * r.Range(1, 9)
			if r.Chance(1, 6) {
				op.ReadFailAt = r.Range(1, 200)
			}
		}
		c.Ops = append(c.Ops, op)
	}
	return c
}

// cbCountForm: a builtin that calls back into lisp is given a callback that
// counts its own invocations and raises an error at the k-th.  The failed
// evaluation stops at the point of failure: whatever the builtin was in the
// middle of, it may not call the callback again (the count, reported by the
// probe, stays at most k).
func cbCountForm(r *Rand) *Node {
	k := r.Range(1, 4)
	cnt := "(set 'cbn (+ cbn 1))"
	stop := fmt.Sprintf("(if (= cbn %d) (error 'cb-stop cbn)", k)
	xs := PickStr(r, []string{"(list 5 3 9 1 7 2 8 4 6)", "(vector 4 8 1 9 2 7)", "'(1 2 3 4 5 6 7 8 9 10 11 12 13 14 15 16)", "(list 2 1)"})
	var call string
	switch r.Intn(10) {
	case 0:
		call = fmt.Sprintf("(stable-sort (lambda (a b) %s %s (< a b))) %s)", cnt, stop, xs)
	case 1:
		call = fmt.Sprintf("(insert-sorted 'list %s (lambda (a b) %s %s (< a b))) %d)", xs, cnt, stop, r.Range(0, 17))
	case 2:
		call = fmt.Sprintf("(search-sorted %d (lambda (i) %s %s (> i %d))))", r.Range(1, 40), cnt, stop, r.Range(0, 40))
	case 3:
		call = fmt.Sprintf("(map '%s (lambda (a) %s %s a)) %s)", PickStr(r, []string{"list", "vector"}), cnt, stop, xs)
	case 4:
		call = fmt.Sprintf("(foldl (lambda (acc a) %s %s (+ acc a))) 0 %s)", cnt, stop, xs)
	case 5:
		call = fmt.Sprintf("(foldr (lambda (a acc) %s %s (+ acc a))) 0 %s)", cnt, stop, xs)
	case 6:
		call = fmt.Sprintf("(%s 'list (lambda (a) %s %s (> a 3))) %s)", PickStr(r, []string{"select", "reject"}), cnt, stop, xs)
	case 7:
		call = fmt.Sprintf("(%s (lambda (a) %s %s %s)) %s)", PickStr(r, []string{"all?", "any?"}), cnt, stop, PickStr(r, []string{"true", "false", "(> a 3)"}), xs)
	case 8:
		call = fmt.Sprintf("(stable-sort < %s (lambda (a) %s %s a)))", xs, cnt, stop)
	default:
		call = fmt.Sprintf("(insert-sorted 'vector %s < %d (lambda (a) %s %s a)))", xs, r.Range(0, 17), cnt, stop)
	}
	return A(fmt.Sprintf("(progn (set 'cbn 0) (ignore-errors %s) (sim:probe 'cbcount %d cbn))", call, k))
}

func histFaultsFrom(r *Rand, n int, avail []int) []FaultSpec {
	var fs []FaultSpec
	for i := 0; i < n; i++ {
		f := FaultSpec{Hit: r.Pick([]int{0, 6, 2, 1})}
		if len(avail) > 0 {
			f.FP = avail[r.Intn(len(avail))]
		} else {
			f.FP = 500 + r.Range(1, 12)
		}
		w := []int{5, 4, 1, 1}
		if n > 1 && i == 0 {
			w = []int{9, 1, 0, 0} // the first of two faults should be survivable, or the second is never reached
		}
		switch r.Pick(w) {
		case 3:
			f.Kind = "baddata"
		case 0:
			f.Kind = "error"
			f.Cond = PickStr(r, []string{"e1", "my-error", "sim-fault"})
			f.Data = []string{fmt.Sprint(r.Intn(100))}
		case 1:
			f.Kind = "panic"
		default:
			f.Kind = "nil"
		}
		fs = append(fs, f)
	}
	return fs
}

// histLib is a source library that serves one operation's source under any name.
type histLib struct{ src string }

func (l histLib) LoadSource(ctx lisp.SourceContext, loc string) (string, string, []byte, error) {
	return "op.lisp", loc, []byte(l.src), nil
}

// chunkReader delivers src in chunks of n bytes and optionally fails at a byte
// offset (stream fault F8).
type chunkReader struct {
	src    []byte
	off    int
	chunk  int
	failAt int
	failed bool
}

func (c *chunkReader) Read(p []byte) (int, error) {
	if c.failAt > 0 && c.off >= c.failAt {
		c.failed = true
		return 0, errors.New("sim: injected read error")
	}
	if c.off >= len(c.src) {
		return 0, io.EOF
	}
	n := c.chunk
	if n <= 0 || n > len(p) {
		n = len(p)
	}
	if c.failAt > 0 && c.off+n > c.failAt {
		n = c.failAt - c.off
	}
	if c.off+n > len(c.src) {
		n = len(c.src) - c.off
	}
	copy(p, c.src[c.off:c.off+n])
	c.off += n
	return n, nil
}

func parseOne(src string) (*lisp.LVal, error) {
	exprs, err := parser.NewReader().Read("sim", strings.NewReader(src))
	if err != nil {
		return nil, err
	}
	if len(exprs) != 1 {
		return nil, fmt.Errorf("want one expression, got %d", len(exprs))
	}
	return exprs[0], nil
}

type ackOp struct {
	id    string
	text  string
	pkg   string
	acked bool
}

// collectOps extracts the acknowledged / in-flight state operations from a
// slice of probe events, in begin order.
func collectOps(evs []Event) []ackOp {
	var ops []ackOp
	for _, ev := range evs {
		switch ev.Tag {
		case "begin":
			if len(ev.StrArgs) == 1 {
				id := strings.SplitN(ev.Args, " ", 2)[0]
				ops = append(ops, ackOp{id: id, text: ev.StrArgs[0], pkg: ev.Pkg})
			}
		case "end":
			id := strings.TrimSpace(ev.Args)
			for i := len(ops) - 1; i >= 0; i-- {
				if ops[i].id == id && !ops[i].acked {
					ops[i].acked = true
					break
				}
			}
		}
	}
	return ops
}

func inspectionSrc() string {
	var b strings.Builder
	h := "(handler-bind ((condition (lambda (c &rest d) 'unbound)))"
	// first of all: an error a program merely NAMES internal-panic is an
	// ordinary error in every later evaluation, whatever host panics the
	// runtime recovered from before
	b.WriteString("(sim:probe 'insp \"forged\" (ignore-errors (error 'internal-panic 1)) (handler-bind ((condition (lambda (c &rest d) (list 'caught c)))) (error 'internal-panic 2)))\n")
	for _, p := range histPkgs {
		for i := 0; i < 4; i++ {
			fmt.Fprintf(&b, "(sim:probe 'insp \"%s:g%d\" %s %s:g%d))\n", p, i, h, p, i)
		}
		for i := 0; i < 3; i++ {
			fmt.Fprintf(&b, "(sim:probe 'insp \"%s:f%d\" %s (%s:f%d)))\n", p, i, h, p, i)
		}
	}
	b.WriteString("(sim:probe 'insp \"m0\" user:m0 (length user:m0) (keys user:m0))\n(sim:probe 'insp \"vec0\" user:vec0 (length user:vec0) (ignore-errors (nth user:vec0 (- (length user:vec0) 1))))\n(sim:probe 'insp \"b0\" user:b0 (length user:b0))\n(sim:probe 'insp \"pkg\" (sim:cur-pkg))\n")
	return b.String()
}

var inspSrc = inspectionSrc()

// inspect evaluates the fixed inspection program and returns one line per
// tracked item.
// inspHostCall: the inspection begins with a call the HOST makes (FunCall of a
// builtin with a bad argument) and records the error text -- position prefix
// included -- that an embedder would log.  Only compared while every
// operation of the history so far was a Load* entry point (those restore the
// environment's source location; the Eval* family is documented to evaluate
// in place).
var inspHostCall bool

func inspect(w *World) ([]string, Outcome) {
	from := len(w.Events)
	w.Faults, w.fpHits = nil, map[int]int{}
	var pre []string
	if inspHostCall {
		if lp := w.RT.Registry.Package("lisp"); lp != nil {
			car := lp.Get(lisp.Symbol("car"))
			o := w.Call(func() *lisp.LVal { return w.Env.FunCall(car, lisp.SExpr([]*lisp.LVal{lisp.Int(5)})) })
			txt := o.Result()
			if o.IsErr && o.Val != nil {
				txt = (*lisp.ErrorVal)(o.Val).Error()
			}
			pre = append(pre, "host-call-error "+txt)
		}
	}
	out := w.Call(func() *lisp.LVal { return w.Env.LoadString("inspect", inspSrc) })
	lines := pre
	for _, ev := range w.Events[from:] {
		if ev.Tag == "insp" {
			lines = append(lines, ev.Args)
		}
	}
	for _, p := range histPkgs {
		if pk := w.RT.Registry.Package(p); pk != nil {
			lines = append(lines, fmt.Sprintf("externals %s %v", p, pk.Externals()))
		}
	}
	w.Events = w.Events[:from]
	return lines, out
}

func buildTwin(k Knobs, ops []ackOp, withInflight bool) (*World, error) {
	k.UseSimCtx = false
	k.MaxSteps = 0
	t, err := NewWorld(k)
	if err != nil {
		return nil, err
	}
	if o := t.LoadString(histSetup); o.IsErr {
		return nil, fmt.Errorf("twin setup: %s", o.Result())
	}
	for _, op := range ops {
		if !op.acked && !withInflight {
			continue
		}
		t.LoadString(fmt.Sprintf("(in-package '%s) (ignore-errors %s)", op.pkg, op.text))
	}
	t.Events = nil
	return t, nil
}

func (historyEngine) Run(ci any, st *Stats) *Violation {
	c := ci.(*HistCase)
	k := c.Knobs
	k.UseSimCtx = false
	R, err := NewWorld(k)
	if err != nil {
		return Violf("harness", "%v", err)
	}
	if o := R.LoadString(histSetup); o.IsErr {
		return Violf("harness", "setup: %s", o.Result())
	}
	R.Events = nil
	var allOps []ackOp
	h := NewHash()
	anyFault := false
	inspHostCall = true
	defer func() { inspHostCall = false }()
	for i, op := range c.Ops {
		if !strings.HasPrefix(op.Entry, "Load") {
			inspHostCall = false
		}
		st.Runs++
		pkgBefore := R.RT.Package.Name
		ctxBefore := R.Env.Context()
		R.Faults = op.Faults
		R.fpHits = map[int]int{}
		R.Fired = nil
		R.stderrFail, R.stderrN = op.StderrFailAt, 0
		if op.Budget > 0 {
			lisp.WithMaxSteps(op.Budget)(R.Env)
		} else {
			lisp.WithMaxSteps(histSafetyCap)(R.Env) // never binds for generated programs; bounds shrink candidates
		}
		if op.MaxPhys > 0 {
			lisp.WithMaximumPhysicalStackHeight(op.MaxPhys)(R.Env)
		}
		if op.MaxNest > 0 {
			lisp.WithMaxEvalNesting(op.MaxNest)(R.Env)
		}
		if op.MaxTail > 0 {
			lisp.WithMaxTailIterations(op.MaxTail)(R.Env)
		}
		if op.MaxAlloc > 0 {
			lisp.WithMaxAlloc(op.MaxAlloc)(R.Env)
		}
		ctx := NewSimCtx(R)
		ctx.CancelAt = op.CancelAt
		R.Ctx = ctx
		evFrom := len(R.Events)
		src := Src(op.Forms)
		prognSrc := "(progn " + src + ")"
		skipped := false
		var rd *chunkReader
		out := R.Call(func() *lisp.LVal {
			switch op.Entry {
			case "LoadString":
				return R.Env.LoadString("op", src)
			case "LoadStringContext":
				return R.Env.LoadStringContext(ctx, "op", src)
			case "Load":
				rd = &chunkReader{src: []byte(src), chunk: op.Chunk, failAt: op.ReadFailAt}
				return R.Env.Load("op", rd)
			case "LoadContext":
				rd = &chunkReader{src: []byte(src), chunk: op.Chunk, failAt: op.ReadFailAt}
				return R.Env.LoadContext(ctx, "op", rd)
			case "LoadFile", "LoadFileContext":
				// through the runtime's source library (an in-memory one that
				// serves exactly this operation's source)
				R.RT.Library = histLib{src: src}
				defer func() { R.RT.Library = nil }()
				if op.Entry == "LoadFile" {
					return R.Env.LoadFile("dir/op.lisp")
				}
				return R.Env.LoadFileContext(ctx, "dir/op.lisp")
			case "LoadLocation":
				rd = &chunkReader{src: []byte(src), chunk: op.Chunk, failAt: op.ReadFailAt}
				return R.Env.LoadLocation("op.lisp", "dir/op.lisp", rd)
			case "LoadLocationContext":
				rd = &chunkReader{src: []byte(src), chunk: op.Chunk, failAt: op.ReadFailAt}
				return R.Env.LoadLocationContext(ctx, "op.lisp", "dir/op.lisp", rd)
			case "LoadProgram", "LoadProgramContext":
				p, err := lisp.ReadProgram(R.RT.Reader, "op", strings.NewReader(src))
				if err != nil {
					skipped = true
					return lisp.Nil()
				}
				if op.Entry == "LoadProgram" {
					return R.Env.LoadProgram(p)
				}
				return R.Env.LoadProgramContext(ctx, p)
			case "Eval", "EvalContext", "EvalSExpr":
				e, err := parseOne(prognSrc)
				if err != nil {
					skipped = true
					return lisp.Nil()
				}
				switch op.Entry {
				case "Eval":
					return R.Env.Eval(e)
				case "EvalContext":
					return R.Env.EvalContext(ctx, e)
				default:
					return R.Env.EvalSExpr(e)
				}
			case "SpecialOpCall":
				e, err := parseOne(prognSrc)
				if err != nil {
					skipped = true
					return lisp.Nil()
				}
				fun := R.Env.Get(lisp.Symbol("progn"))
				return R.Env.SpecialOpCall(fun, lisp.SExpr(e.Cells[1:]))
			case "MacroCall":
				// (defun zz () forms...) through the defun macro entry point
				e, err := parseOne("(zzmc () " + src + ")")
				if err != nil {
					skipped = true
					return lisp.Nil()
				}
				fun := R.Env.Get(lisp.Symbol("defun"))
				v := R.Env.MacroCall(fun, lisp.SExpr(e.Cells))
				if v != nil && v.Type != lisp.LError {
					return lisp.Nil() // the expansion marker itself is not a value
				}
				return v
			case "FunCallHostPanic":
				fn := R.Env.Get(lisp.Symbol(op.Fun))
				fp := R.RT.Registry.Package("sim").Get(lisp.Symbol("fp"))
				R.Faults = []FaultSpec{{FP: 900, Hit: 1, Kind: "panic"}}
				switch op.Fun {
				case "map":
					// (map 'list (curry sim:fp 900) ...) needs a lisp wrapper: use funcall shape instead
					return R.Env.FunCall(R.Env.Get(lisp.Symbol("funcall")), lisp.SExpr([]*lisp.LVal{fp, lisp.Int(900), lisp.Int(0)}))
				case "apply":
					return R.Env.FunCall(fn, lisp.SExpr([]*lisp.LVal{fp, lisp.Int(900), lisp.QExpr([]*lisp.LVal{lisp.Int(0)})}))
				default:
					return R.Env.FunCall(fn, lisp.SExpr([]*lisp.LVal{fp, lisp.Int(900), lisp.Int(0)}))
				}
			case "FunCall", "FunCallContext":
				parts := strings.SplitN(op.Fun, ":", 2)
				pk := R.RT.Registry.Package(parts[0])
				if pk == nil {
					skipped = true
					return lisp.Nil()
				}
				fun := pk.Get(lisp.Symbol(parts[1]))
				if fun.Type != lisp.LFun {
					skipped = true
					return lisp.Nil()
				}
				if op.Entry == "FunCall" {
					return R.Env.FunCall(fun, lisp.SExpr(nil))
				}
				return R.Env.FunCallContext(ctx, fun, lisp.SExpr(nil))
			}
			skipped = true
			return lisp.Nil()
		})
		// restore the per-operation knobs
		lisp.WithMaxSteps(0)(R.Env)
		lisp.WithMaximumPhysicalStackHeight(lisp.DefaultMaxPhysicalStackHeight)(R.Env)
		lisp.WithMaxEvalNesting(0)(R.Env)
		if c.Knobs.MaxTail > 0 {
			lisp.WithMaxTailIterations(c.Knobs.MaxTail)(R.Env)
		} else {
			lisp.WithMaxTailIterations(lisp.DefaultMaxTailIterations)(R.Env)
		}
		lisp.WithMaxAlloc(0)(R.Env)
		if skipped {
			st.Inc("op_skipped")
			continue
		}
		st.Inc("entry_" + op.Entry)
		st.SimSteps += out.Steps
		evs := R.Events[evFrom:]
		h = evHash(h.Str(op.Entry), evs, out)

		// fault accounting (what actually fired)
		fired := false
		if op.Budget == 0 && out.Cond == lisp.CondStepLimitExceeded {
			st.Inc("discard_safety_cap_hit")
		}
		if op.Budget > 0 && out.Steps > op.Budget {
			st.Inc("fault_budget_fired")
			fired = true
		}
		if ctx.Cancelled() {
			st.Inc("fault_cancel_fired")
			fired = true
		} else if op.CancelAfter {
			ctx.CancelNow()
			st.Inc("fault_context_cancelled_after_return")
		}
		panicFired := false
		maybePanic := false
		for _, f := range R.Fired {
			if f == "baddata" {
				maybePanic = true // the interpreter may or may not trip over the malformed value
			}
			if f == "stderr-error" {
				st.Inc("fault_stderr_write_error_fired")
				fired = true
				continue
			}
			st.Inc("fault_fp_" + f + "_fired")
			fired = true
			if f == "panic" {
				panicFired = true
			}
		}
		if len(R.Fired) >= 2 {
			st.Inc("reach_double_fault")
		}
		if rd != nil && rd.failed {
			st.Inc("fault_stream_read_error_fired")
			fired = true
		}
		if out.IsErr && (op.MaxPhys > 0 || op.MaxNest > 0 || op.MaxTail > 0 || op.MaxAlloc > 0) {
			st.Inc("fault_limit_knob_op_failed")
			fired = true
		}
		if fired {
			anyFault = true
			if len(evs) > 0 {
				last := evs[len(evs)-1]
				if last.Pkg != "user" {
					st.Inc("reach_fault_in_other_package")
				}
				if last.Frames >= 4 {
					st.Inc("reach_fault_deep_stack")
				}
				if strings.HasPrefix(last.Tag, "in-f") {
					st.Inc("reach_fault_in_defined_function")
				}
			}
		}
		if out.IsErr {
			st.Inc("op_failed")
		} else {
			st.Inc("op_succeeded")
		}

		fail := func(oracle, format string, a ...any) *Violation {
			return Violf(oracle, "after op %d (%s): %s", i, op.Entry, fmt.Sprintf(format, a...))
		}
		for _, ev := range evs {
			if ev.Tag != "cbcount" {
				continue
			}
			var k, n int
			if _, err := fmt.Sscanf(ev.Args, "%d %d", &k, &n); err == nil {
				st.Inc("reach_counting_callback_checked")
				if n > k {
					return fail("callback-after-failure", "a callback raised an error at its call %d, yet the builtin went on calling it (%d calls in all)", k, n)
				}
				if n == k {
					st.Inc("fault_callback_failed_mid_builtin")
				}
			}
		}
		// invariants after the entry point returned
		if out.GoPanic != "" && op.Entry != "FunCallHostPanic" {
			return fail("go-panic-escaped", "%s", out.GoPanic)
		}
		if op.Entry == "FunCallHostPanic" {
			st.Inc("reach_host_panic_through_direct_funcall")
			panicFired = false // it reached the host as a Go panic, by design of this entry
			out.IsPanic = false
		}
		if n := len(R.RT.Stack.Frames); n != 0 {
			return fail("stack-not-empty", "%d frames left on the call stack (top: %s)", n, R.RT.Stack.Top().QualifiedFunName())
		}
		if cnd := R.RT.CurrentCondition(); cnd != nil {
			return fail("condition-pending", "a condition is still pending for rethrow: %s", cnd.Str)
		}
		if n := R.RT.EvalNesting(); n != 0 {
			return fail("nesting-not-zero", "evaluator nesting is %d", n)
		}
		if p := R.RT.Package.Name; p != pkgBefore {
			return fail("package-not-restored", "current package is %q, was %q before the call", p, pkgBefore)
		}
		if got := R.Env.Context(); got != ctxBefore {
			return fail("context-not-restored", "env.Context() is %s, was %s before the call", ctxName(got), ctxName(ctxBefore))
		}
		if out.IsPanic && !panicFired && !maybePanic {
			return fail("spurious-host-panic", "result is an internal-panic error but no panic was injected: %s", out.Msg)
		}
		if panicFired && !out.IsPanic && !maybePanic {
			return fail("host-panic-swallowed", "an injected host panic fired but the result is %q", out.Result())
		}
		if rd != nil && rd.failed && len(evs) > 0 {
			// Not an oracle: C05 says nothing about what a failing source
			// reader must do (a reader that fails after its last byte is
			// treated as end of input by the scanner).  Counted only.
			st.Inc("reach_evaluated_despite_read_error")
		}

		// clean-runtime oracle: an operation without any injected fault must
		// behave in the used runtime exactly as in a fresh runtime that was
		// given the acknowledged operations so far
		if op.faultFree() && strings.HasPrefix(op.Entry, "LoadString") {
			T, err := buildTwin(c.Knobs, allOps, false)
			if err != nil {
				return Violf("harness", "%v", err)
			}
			lisp.WithMaxSteps(histSafetyCap)(T.Env)
			var tout Outcome
			if op.Entry == "LoadString" {
				tout = T.Call(func() *lisp.LVal { return T.Env.LoadString("op", src) })
			} else {
				tout = T.Call(func() *lisp.LVal { return T.Env.LoadStringContext(NewSimCtx(T), "op", src) })
			}
			st.Runs++
			emptySrc := strings.TrimSpace(src) == "" || (strings.HasPrefix(strings.TrimSpace(src), ";") && !strings.Contains(strings.TrimSpace(src), "\n"))
			if emptySrc {
				// nothing is evaluated: Steps() keeps reporting the previous evaluation
				tout.Steps = out.Steps
			}
			if tout.Result() != out.Result() || tout.Steps != out.Steps {
				return fail("differs-from-clean-runtime", "the used runtime gave %q in %d steps; a fresh runtime holding the same acknowledged state gives %q in %d steps", out.Result(), out.Steps, tout.Result(), tout.Steps)
			}
			if d := cmpEvents(relEvents(evs), relEvents(T.Events)); d != "" {
				return fail("differs-from-clean-runtime", "%s", d)
			}
			st.Inc("clean_runtime_comparisons")
		}
		// later-evaluation oracle
		lisp.WithMaxSteps(hugeBudget)(R.Env) // non-zero so that steps are counted
		linesR, outR := inspect(R)
		lisp.WithMaxSteps(0)(R.Env)
		st.Runs++
		if outR.IsErr || outR.GoPanic != "" {
			return fail("later-evaluation-fails", "the fault-free inspection program failed in the used runtime: %s", outR.Result())
		}
		// same inspection under a budget equal to its own cost: a leaked
		// entry-point depth would keep the counter from being reset
		lisp.WithMaxSteps(outR.Steps)(R.Env)
		linesR2, outR2 := inspect(R)
		lisp.WithMaxSteps(0)(R.Env)
		st.Runs++
		if outR2.IsErr || strings.Join(linesR2, "\n") != strings.Join(linesR, "\n") || outR2.Steps != outR.Steps {
			return fail("budget-not-refilled", "inspection needing %d steps, re-run under a budget of %d: %s (steps %d)", outR.Steps, outR.Steps, outR2.Result(), outR2.Steps)
		}
		// Each operation that was in flight when the fault hit may be observed
		// done or not done, independently of the others: find the subset that
		// explains what the used runtime shows.  That subset is then carried
		// forward as this history's acknowledged state.
		cur := collectOps(evs)
		var infl []int
		for j, o := range cur {
			if !o.acked {
				infl = append(infl, j)
			}
		}
		if len(infl) > 4 {
			st.Inc("discard_too_many_inflight")
			return nil
		}
		if len(infl) > 0 {
			st.Inc("reach_op_in_flight_at_fault")
		}
		matched := false
		var firstDiff string
		want := strings.Join(linesR, "\n")
		for mask := 0; mask < 1<<len(infl); mask++ {
			trial := append([]ackOp(nil), allOps...)
			for j, o := range cur {
				o2 := o
				for b, idx := range infl {
					if idx == j {
						o2.acked = mask&(1<<b) != 0
					}
				}
				trial = append(trial, o2)
			}
			T, err := buildTwin(c.Knobs, trial, false)
			if err != nil {
				return Violf("harness", "%v", err)
			}
			linesT, outT := inspect(T)
			st.Runs++
			if outT.IsErr {
				return Violf("harness", "inspection failed in twin: %s", outT.Result())
			}
			if strings.Join(linesT, "\n") == want {
				matched = true
				allOps = trial
				if mask != 0 {
					st.Inc("reach_in_flight_op_observed_done")
				}
				break
			}
			if mask == 0 {
				for j := range linesR {
					if j >= len(linesT) || linesR[j] != linesT[j] {
						t := "<missing>"
						if j < len(linesT) {
							t = linesT[j]
						}
						firstDiff = fmt.Sprintf("used runtime shows [%s]; a fresh runtime given exactly the acknowledged operations shows [%s]", linesR[j], t)
						break
					}
				}
			}
		}
		if !matched {
			return fail("later-evaluation-differs", "%s; no done/not-done choice for the %d in-flight operation(s) explains it", firstDiff, len(infl))
		}
		st.Inc("inspections_compared")
	}
	st.NoteHash(h, anyFault)
	return nil
}

func ctxName(c context.Context) string {
	if c == context.Background() {
		return "Background"
	}
	if _, ok := c.(*SimCtx); ok {
		return "the caller's context of an earlier call"
	}
	return fmt.Sprintf("%T", c)
}

func (historyEngine) Shrink(ci any) []any {
	c := ci.(*HistCase)
	var out []any
	clone := func() *HistCase {
		d := &HistCase{Knobs: c.Knobs, Ops: append([]HistOp(nil), c.Ops...)}
		return d
	}
	for i := range c.Ops {
		if len(c.Ops) > 1 {
			d := clone()
			d.Ops = append(d.Ops[:i:i], d.Ops[i+1:]...)
			out = append(out, d)
		}
	}
	if c.Knobs != (Knobs{}) {
		d := clone()
		d.Knobs = Knobs{}
		out = append(out, d)
	}
	for i, op := range c.Ops {
		if len(op.Faults) > 0 {
			for j := range op.Faults {
				d := clone()
				d.Ops[i].Faults = append(append([]FaultSpec(nil), op.Faults[:j]...), op.Faults[j+1:]...)
				out = append(out, d)
			}
		}
		for _, z := range []func(o *HistOp) bool{
			func(o *HistOp) bool { ch := o.Budget != 0; o.Budget = 0; return ch },
			func(o *HistOp) bool { ch := o.CancelAt != 0; o.CancelAt = 0; return ch },
			func(o *HistOp) bool { ch := o.MaxPhys != 0; o.MaxPhys = 0; return ch },
			func(o *HistOp) bool { ch := o.MaxNest != 0; o.MaxNest = 0; return ch },
			func(o *HistOp) bool { ch := o.MaxTail != 0; o.MaxTail = 0; return ch },
			func(o *HistOp) bool { ch := o.MaxAlloc != 0; o.MaxAlloc = 0; return ch },
			func(o *HistOp) bool { ch := o.ReadFailAt != 0; o.ReadFailAt = 0; return ch },
			func(o *HistOp) bool { ch := o.StderrFailAt != 0; o.StderrFailAt = 0; return ch },
			func(o *HistOp) bool { ch := o.Chunk != 0; o.Chunk = 0; return ch },
			func(o *HistOp) bool { ch := o.CancelAt > 1; o.CancelAt = 1; return ch },
			func(o *HistOp) bool {
				ch := o.Entry != "LoadStringContext" && o.Entry != "LoadString" && o.Fun == ""
				if strings.HasSuffix(o.Entry, "Context") {
					o.Entry = "LoadStringContext"
				} else {
					o.Entry = "LoadString"
				}
				return ch
			},
		} {
			d := clone()
			if z(&d.Ops[i]) {
				out = append(out, d)
			}
		}
		if len(op.Forms) > 0 {
			for _, f := range ShrinkForms(op.Forms, 250) {
				d := clone()
				d.Ops[i].Forms = f
				out = append(out, d)
			}
		}
	}
	return out
}

var _ = bytes.NewReader
