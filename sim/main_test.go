package sim

import (
	"os"
	"testing"
)

// TestEngine is the single entry point of the simulator binary.  The driver
// (/verif/check) selects the engine through VERIF_ENGINE or a replay file
// through VERIF_REPLAY.  Exit status: 0 held, 1 violation, 2 harness trouble,
// 3 wedged case.
func TestEngine(t *testing.T) {
	if p := os.Getenv("VERIF_REPLAY"); p != "" {
		os.Exit(RunReplay(p))
	}
	name := os.Getenv("VERIF_ENGINE")
	if name == "" {
		t.Skip("VERIF_ENGINE not set")
	}
	e := engines[name]
	if e == nil {
		t.Fatalf("unknown engine %q", name)
	}
	if h, ok := e.(interface{ SetT(*testing.T) }); ok {
		h.SetT(t)
	}
	os.Exit(RunWorker(e))
}
