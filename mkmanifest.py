#!/usr/bin/env python3
"""Regenerates MANIFEST.json and engines.json from one table, so the two never drift."""
import json, os, subprocess

HERE = os.path.dirname(os.path.abspath(__file__))

REAL = ["lisp (evaluator, stack, limits, packages, builtins, seal machinery)", "parser/*", "elpsutil"]
STUBS = ["context.Context (simctx: per-step seam)", "host probe / fault-point builtins (package sim)",
         "dormant Debugger / Profiler (TRO knob)", "Runtime.Stderr writer"]

CLAIMED = {
    "C04": {
        "engine": "limits",
        "level": "fault_enumeration",
        "technique": "deterministic simulation: seeded program generation, step-budget and cancellation faults enumerated at every step index, self-reference oracle against the unlimited run",
        "text": "Every step budget n in [1,N+2] and every cancellation poll index in [1,polls+1] is executed for small programs (sampled, edge-biased, for larger ones), each in a fresh real runtime, and compared with the unlimited run of the same program: trace-prefix equality, no step after exhaustion, identical outcome when the budget suffices, refill on the next top-level evaluation, every counted step polls the context, structural limits swept from 1 upward for exactness/monotonicity/catchability, loops of known turn count are metered. Sampling over programs, enumeration over fault placements.",
        "note": "Trusted: the simulator's context stub and probe builtins; the interpreter's own Runtime.Steps() as the clock against which truncation is stated; program generator only reaches the constructs listed in DESIGN.md section 4/C04. The pending-sleep clause is decided by the clock engine (C15) and counted there.",
        "design_ref": "4/C04",
        "rule": "case = generated program (general grammar, or a structural/metering shape of known depth) x configuration knobs; each case is executed once unlimited and then once per fault placement (budget n / cancel poll k / limit L). distinct_nontrivial counts distinct (event-log + outcome) hashes among executions in which a fault actually fired (budget exhausted, context cancelled, or structural limit hit).",
        "real": REAL, "stubs": STUBS,
        "assumptions": ["programs come from the generator's grammar; steps are measured with Runtime.Steps()", "fault placements are enumerated exhaustively only for programs of at most 400 steps"],
    },
}

CLAIMED["C05"] = {
    "engine": "history",
    "level": "exploration",
    "technique": "deterministic simulation: seeded histories of entry-point calls on one long-lived runtime with injected step-budget, cancellation, host-panic/error, limit and stream faults; invariants after every return plus acknowledgement model replayed in a twin runtime",
    "text": "Histories of 2-6 operations through every exported entry point (Load*, Eval*, FunCall*, SpecialOpCall, MacroCall, LoadProgram*), each with a fault plan drawn from the seed (budget at step n, cancellation at poll k, host panic / error / nil return at a cooperative fault point, two faults in one operation, tiny structural limits, allocation cap, failing source reader). After every return the public-API invariants are checked (empty stack, no pending condition, zero nesting, package and context restored, panic flag iff a panic was injected) and a fixed inspection program is evaluated in the used runtime, re-run under a budget equal to its own cost, and compared with a fresh twin runtime that received exactly the acknowledged state operations (in-flight operations may be observed done or not done, nothing else). Seeded sampling; no exhaustiveness claimed.",
    "note": "Trusted: the simulator's stubs; the acknowledgement protocol (begin/end probes around atomic state operations); the inspection program covers globals, functions, a map, a vector, export lists and current package over three packages - state outside that is not compared.",
    "design_ref": "4/C05",
    "rule": "case = history of 2-6 entry-point operations with per-operation fault plan and runtime knobs; distinct_nontrivial counts distinct whole-history event-log hashes among histories in which at least one injected fault actually fired.",
    "real": REAL, "stubs": STUBS + ["chunking/failing io.Reader"],
    "assumptions": ["state operations are atomic at the lisp level (set, set!, defun, assoc!, dissoc!, append!, export)", "FunCall entry points are only applied to lisp-defined functions; profiler-hook panics are not injected under direct FunCall"],
}

CLAIMED["C06"] = {
    "engine": "conditions",
    "level": "exploration",
    "technique": "deterministic simulation: seeded programs over a restricted condition-system grammar with host errors, host panics and nil returns injected at cooperative fault points in bodies, handler expressions and handlers; compared with an executable reference model, rethrow checked by object identity",
    "text": "Programs over handler-bind / ignore-errors / rethrow / error nested with let, if, list, funcall, load-string, dotimes and a macro, with up to three armed fault points (error with chosen condition and data, host panic, nil return) at PRNG-chosen dynamic hits. The real interpreter's value or (condition, data, host-panic flag), its probe trace, the condition visible to each handler and the identity, data and stack of a rethrown error are compared with a 300-line reference model written from docs/lang.md. Seeded sampling of programs and fault plans; the model, not a table of expected outputs, is the oracle.",
    "note": "Trusted: the reference model (sim/e3_conditions.go) as a faithful reading of docs/lang.md; message texts produced by the interpreter itself (unbound symbol, arity, recovered-panic text) are wildcards, only their condition name and panic flag are compared.",
    "design_ref": "4/C06",
    "rule": "case = program from the restricted grammar + fault plan (<= 3 armed fault points); distinct_nontrivial counts distinct (probe trace, outcome, snapshot count) hashes among cases in which an error was raised or a fault fired.",
    "real": REAL, "stubs": STUBS,
    "assumptions": ["the restricted grammar covers the constructs named in the property; handlers are lambdas, a named function, a faulting expression or a non-function"],
}

CLAIMED["C15"] = {
    "engine": "clock",
    "level": "fault_enumeration",
    "technique": "deterministic simulation on a fake clock (testing/synctest bubble): deadlines and cancellations placed at chosen simulated instants around every boundary of (duration, :max, host ceiling, deadline, cancel time); compared with a reference model of sleep and with the simulator's own clock",
    "text": "Decides the clock-dependent clauses only: time:sleep refuses immediately above the applicable cap (default hour, :max, host ceiling) or beyond the context deadline, never blocks longer than requested or past cancellation, and instants read from the clock around each sleep order, subtract, add and round-trip consistently with the simulated time that actually passed. Each case runs the real libtime inside a synctest bubble: context kind x ceiling x :max x sleep durations drawn from the boundary set (0, negative, cap-1/cap/cap+1, remaining-1/remaining/remaining+1 to the deadline, before/at/after the cancellation instant, years under :max); elapsed simulated time must equal the model's exactly (0 on refusal). The pure string laws of C15 (RFC 3339 acceptance/rejection over arbitrary strings, parse-duration arithmetic) are NOT decided - they have no clock in them.",
    "note": "Trusted: testing/synctest's fake clock (go1.26.8); the sleep model in sim/e8_clock.go written from docs/lang.md 'Sleep length'. Exact ties (sleep ends exactly at the deadline / cancellation instant) accept either outcome. RFC 3339 and duration-string clauses are out of scope of this technique.",
    "design_ref": "4/C15",
    "rule": "case = context kind (none, background, cancel at T, deadline at D, deadline without Done channel, deadline whose Err lags, deadline+cancel, already cancelled) x host ceiling x 1-4 sleep calls with boundary-biased duration and :max; distinct_nontrivial counts distinct (context kind, outcome class, elapsed) sequences among cases where a sleep was refused, interrupted, or hit an exact tie.",
    "real": REAL + ["lisp/lisplib/libtime (sleep, utc-now, time-from, time-add, time<, time>, time=, format/parse-rfc3339-nano, parse-duration, duration-ns) on the fake clock", "context.WithCancel/WithDeadline from the Go standard library inside the bubble"],
    "stubs": ["the clock and timers (testing/synctest)", "a deadline-only context with a nil Done channel", "host probe builtins"],
    "assumptions": ["evaluation steps cost zero simulated time, so elapsed time is exactly time spent blocked"],
}

CLAIMED["C20"] = {
    "engine": "fs",
    "level": "fault_enumeration",
    "technique": "deterministic simulation of the file system: seeded directory layouts with symbolic links (to files/directories, inside/outside, chained, looping, dangling) on a real temp tree, every location string up to 2 components x loading contexts enumerated, a file-system adversary acting in the resolve/read window through a guarded hook, content markers plus an independent path resolver as oracle; in-memory fs.FS with injected open/read faults for FSLibrary",
    "text": "For each seeded layout every 1- and 2-component location over the layout's names plus '.' and '..', sampled 3-4 component locations, and every absolute spelling of every node are loaded through LoadSource from four loading-file contexts, and a sample end-to-end through (load-file ...) evaluated from a loader file; in half of the layouts an adversary re-points a symlink / removes / replaces the resolved target between path resolution and read. Identity of what was served or evaluated is established by unique content markers: it must be a whole file whose real path lies under the root's real directory; for locations where lexical and physical parents agree the served file must be the one an independent component-by-component resolver names relative to the loading file's directory. FSLibrary runs over an in-memory fs.FS with injected open errors, read errors and short reads. Enumeration is complete for locations of at most 2 components per layout; layouts are sampled.",
    "note": "Trusted: the layout-to-disk builder and the independent resolver in sim/e9_fs.go; the adversary only re-points/removes links and files (the class the code documents itself as handling), it never replaces a real directory component by a link; refusals of inside files (over-refusal) are counted, not flagged, because the property is an only-if.",
    "design_ref": "4/C20",
    "rule": "case = directory layout (skeleton + 2-6 seeded symlinks) x root spelling (absolute, or relative to a working directory at or below the root) x optional adversary move; each case performs ~9000 loads, some of files that load further files. distinct_nontrivial counts distinct per-layout result sequences among layouts where a location resolved outside the root or the adversary acted.",
    "real": ["lisp.RelativeFileSystemLibrary on a real directory tree", "lisp.FSLibrary", "LEnv.LoadFile / load-file / Runtime.sourceContext for the end-to-end sample", "parser/*",
             "cmd (the elps binary built from the tree under test: `elps run --root-dir ... -e ...` as a subprocess against the simulated disk)"],
    "stubs": ["the directory tree (built per case under os.MkdirTemp)", "file-system adversary at the guarded hook lisp.verifPoint(\"library.resolved\")", "in-memory fs.FS with fault injection", "sim:mark probe builtin", "inotify watches on the layout's directories (observer of opens and reads)"],
    "assumptions": ["loading files are addressed by their real (link-free) paths", "locations whose lexical and physical '..' interpretation differ are checked for safety only, not for which inside file is chosen"],
}

CLAIMED["C09"] = {
    "engine": "interleave",
    "level": "exploration",
    "technique": "deterministic simulation of goroutine interleaving: 2-4 real runtimes on their own goroutines load one shared parse under a seeded scheduler that releases one goroutine per step (race-detector-invisible baton); solo-twin equivalence, per-event structural fingerprint, literal constancy, Go race detector and the checked-build inspectors as oracles",
    "text": "One source text is parsed once and loaded 1-3 times by each of 2-4 runtimes (through a caching Reader and through lisp.Program), every evaluation step being a scheduling point; schedules are uniform, bursty or round-robin lists drawn from the seed, with optional unrelated activity, heap churn and GC between events. Programs route quoted literals, nested literals, views (cdr/rest/slice/reverse), macro &rest lists and quasiquote templates into stable-sort, append!, append, slice 'vector, assoc!, insert-index, macroexpand, then re-evaluate and print the literals. Oracles: every load's transcript and step count equal those of the same load of a fresh parse in a runtime running alone; lisp.SealedASTFingerprint of the shared roots is unchanged after every scheduling event; every observation of a literal prints the same as in a pristine runtime; singleton snapshot verifies; the same cases under -race (the baton hides no happens-before edge) produce no data-race report involving repository code; the -tags elpscheck flavour's seal/ownership/singleton inspectors stay silent; concurrent GenSym/GenEnvID callers get distinct values. Seeded sampling of programs and schedules.",
    "note": "Trusted: the baton scheduler (sim/e5_interleave.go), Go's race detector, lisp.SealedASTFingerprint's coverage contract. Race reports are attributed to a case by log growth; racy cases are not shrunk in-process (the detector reports each racy pair once per process) but the replay file reproduces in a fresh process.",
    "design_ref": "4/C09",
    "rule": "case = program biased to in-place/capacity-sensitive builtins on literals and views x number of runtimes x loads per runtime x per-runtime knobs x explicit schedule; distinct_nontrivial counts distinct (schedule, all transcripts) hashes among cases with more than one context switch between runtimes; the three build flavours (plain, race, elpscheck) are counted separately.",
    "real": REAL + ["lisp.Program / ReadProgram / LoadProgramContext", "lisp.SealedASTFingerprint, TakeSingletonSnapshot", "Go race detector (flavour race)", "the repository's -tags elpscheck inspectors (flavour elpscheck)"],
    "stubs": STUBS + ["goroutine scheduler (baton)", "caching lisp.Reader returning one shared parse", "scratch runtime + heap churn + forced GC as perturbation"],
    "assumptions": ["each Runtime is driven by exactly one goroutine (the documented topology)", "yield points are the interpreter's own per-step context polls; code between two polls runs atomically"],
}

CLAIMED["C10"] = {
    "engine": "determinism",
    "level": "exploration",
    "technique": "deterministic simulation used as its own determinism proof pointed at the interpreter: each (source, configuration) is re-executed under controlled repetition, preceding activity, seeded step-level interleaving with other runtimes, heap churn and forced GC, chunked source delivery, fresh processes with different GOMAXPROCS/GOGC/environment, and a fake clock; transcripts must be byte-identical",
    "text": "Programs biased to what could leak nondeterminism (sorted-maps of 4-12 mixed string/symbol/keyword keys printed, enumerated, compared, JSON-dumped, formatted and carried in error data; closures with several captured bindings; gensym; debug-print and debug-stack; schema validators; help listings; package exports) are each evaluated 6 times in one process - twice in fresh runtimes, after unrelated programs ran in other runtimes, with the source delivered in 1-byte and seeded-size reads (and with >=128 KiB padding across the scanner window), and interleaved step by step with two unrelated runtimes under a seeded schedule with heap churn and forced GC - and again in two further fresh processes with different GOMAXPROCS, GOGC and environment. Value, stderr bytes, condition, error message, rendered trace and step count must all be byte-identical. Clock-reading programs are run twice on a fake clock. Seeded sampling.",
    "note": "Trusted: the transcript extraction in sim/e6_determinism.go. A Go-map-order leak over n keys survives one comparison with probability about 1/n; six in-process runs plus two processes leave about n^-7. Host-dependent builtins (file loading) are outside the property and not generated; time builtins are only compared under the fake clock.",
    "design_ref": "4/C10",
    "rule": "case = program + unrelated noise program + configuration + chunk sizes + padding + schedule; each case is executed 6 times in-process and once in each of two further processes. distinct_nontrivial counts distinct reference-transcript hashes (every case is run under all perturbations, so every case is non-trivial).",
    "real": REAL + ["lisp/lisplib/* (json, schema, help, time, string ...)", "parser/token scanner window under chunked delivery"],
    "stubs": STUBS + ["goroutine scheduler (baton) with heap churn and forced GC", "chunking io.Reader", "fake clock (testing/synctest) for clock-reading programs", "fresh worker processes with different GOMAXPROCS/GOGC/environment"],
    "assumptions": ["file loading and wall-clock builtins are the documented exceptions and are not compared outside the fake clock"],
}

CLAIMED["C08"] = {
    "engine": "packages",
    "level": "exploration",
    "technique": "deterministic simulation of histories: seeded sequences of package operations (in-package, export, use-package, set, set!, defun, defmacro, qualified/unqualified references, nested load-string) evaluated through load and eval entry points in one long-lived runtime with host errors and panics injected at cooperative fault points; compared operation by operation with an executable reference model of the package registry",
    "text": "Histories of 2-7 operations over four packages and a handful of names; loads nest, switch package and are aborted part-way by injected errors and host panics (swallowed or not). After every operation the value or error, the probe trace and the current package are compared with a 300-line reference model (snapshot import in export order stopping at the first unbound export, definition-time package of functions and macros, macro expansions resolved in the caller's package, package restored after loads and cross-package calls on success and failure, keywords and true/false unassignable), and a fixed inspection program reads every name from every package, qualified and unqualified, and calls every function and macro, in both the interpreter and the model; export lists are compared through the registry API. Seeded sampling; the pure-function part of C08 (what a single fault-free program evaluates to) is covered only as far as the generator reaches.",
    "note": "Trusted: the reference model in sim/e4_packages.go as a faithful reading of docs/lang.md and the property text. Function and macro definitions inside the init expression of a let are not generated (closure capture of the let's own scope is a lexical-scoping question outside C08). Message texts of interpreter-raised errors are not compared, only error-ness, condition names of injected faults and the host-panic flag.",
    "design_ref": "4/C08",
    "rule": "case = history of load/eval operations over the restricted package grammar + fault plan; distinct_nontrivial counts distinct (probe traces, current package after each operation) hashes among histories in which an error occurred or a fault fired.",
    "real": REAL, "stubs": STUBS,
    "assumptions": ["values are unique integers so each read is attributable to one write", "four packages, four variable names, three function names, two macro names"],
}

CLAIMED["C11"] = {
    "engine": "heap",
    "level": "exploration",
    "technique": "deterministic simulation of histories over an aliased heap: seeded sequences of container operations on ten variables (constructors, views, non-mutating and mutating builtins, containers inside containers) with a small per-operation allocation cap and lisp callbacks failing part-way as injected faults; every variable is re-inspected after every step and compared with an executable heap model",
    "text": "Histories of 8-40 operations (list, vector, sorted-map, to-bytes, make-sequence, aliasing, slice, cdr, rest, append, cons, reverse, map, select, reject, zip, insert-index, insert-sorted, concat, assoc, dissoc, keys, nth, get, length, assoc!, dissoc!, append!, append-bytes!, append-bytes, stable-sort with comparator or key function) whose operands are earlier values, so views of views, chained appends and containers stored in containers arise. After every step the printed form of all ten variables is compared with a heap model of headers (backing array, offset, length) and name-keyed maps with remembered spelling: non-mutating operations must leave every existing value unchanged, mutating ones change exactly their target and are seen through every alias and overlapping view, appending to a view detaches it. Faults: a per-operation allocation cap of 2-8 makes operations refuse (nothing may change), and map/select/reject/stable-sort callbacks fail at their n-th call (a failed in-place sort may leave its window in any order, nothing else may change). Seeded sampling.",
    "note": "Trusted: the heap model in sim/e7_heap.go. Not modelled, and therefore not generated: quoted literals (C09's subject), append! to a vector that shares storage with another live value unless it is a fresh view (whether spare capacity is reused is not part of the documented contract), zero-value append, cyclic structures, non-integer elements in sorted/mapped sequences.",
    "design_ref": "4/C11",
    "rule": "case = history of explicit container operations + allocation-cap knob + callback fault positions; distinct_nontrivial counts distinct (operation kinds, destination renderings) hashes among histories in which an operation was refused by the allocation cap or a callback failed mid-operation.",
    "real": REAL, "stubs": STUBS,
    "assumptions": ["ten global variables; sequences of at most ~15 elements; maps over 8 key spellings of 5 names"],
}

# what was added to each check after the first version (kept apart so the
# original descriptions stay readable)
LATER = {
    "C04": "Later additions: a sentinel step (the last form wrapped in the harness's own ignore-errors followed by a constant, symbol or call in tail position) under which no budget below the run's cost and no cancellation index may end in a value; nesting levels that pass through load-string / load-bytes with a lower bound on the admitting limit; the logical stack height swept like the physical one; a budget and a cancellation configured together. Wave 6: tail loops whose call arguments recurse (non-tail) 1-90 frames deep on chosen turns, so the frame storage grows under the loop. Waves 7-8: host faults (panic, error, nil return at cooperative fault points, also reached through funcall/apply/foldl) are part of a third of the programs and of their reference runs, so every budget/cancellation oracle and the refill rule also hold across a recovered host panic; the physical and the logical stack limit configured together. Wave 10: in a third of the structural cases the limit is assigned to the exported Runtime / CallStack field of a runtime that has already evaluated something.",
    "C05": "Later additions: the host cancels an operation's context after the entry point returned; functions defined by acknowledged operations contain special operators; a bytes value belongs to the shared state and multi-element appends are refused on a middle or last element. Wave 6: calls refused while their arguments are bound (builtins, special operators, builtin macros, lambdas, malformed keyword lists) as a source of errors. Waves 7-8: callbacks that fail at their k-th call are counted (a failed callback is never called again; exposed defect D9, repaired); LoadFile/LoadLocation entry points; host builtins used as handlers and host panics whose payload is a lisp error, a Go error, an int or a runtime error. Wave 9: the inspection after every operation begins by checking that an error merely named internal-panic is still contained by ignore-errors and a catch-all. Wave 10: the inspection also begins with a call made by the host (FunCall of a builtin with a bad argument) whose error text, position included, must equal the clean twin's while the history consists of Load* entry points.",
    "C06": "Later additions: interpreter condition names raised from lisp, handlers that change their data in place before rethrow, handlers named by unbound symbols, malformed host errors, and after every case no condition may be offered to a top-level rethrow. Waves 7-8: host builtins used as handlers (themselves fault points) and host panics whose payload is a lisp error value, the Go error of one, an int or a Go runtime error. Wave 9: package-qualified condition names. Wave 10: package-qualified symbols and keywords as error data taken out of quoted literals.",
    "C08": "Later additions: lexical bindings named like special operators, macros, builtins and package functions used in operator position; the language package gains exports in mid-history (new packages start with them, existing ones keep what they have); nested loads through load-bytes. Wave 6: a refused in-package (non-string documentation argument), swallowed, followed by the well-formed call for the same possibly new package. Wave 10: keywords spelled as let variables and formals (accepted, never bound).",
    "C09": "Later additions: abbreviated, incomplete and over-full special-form syntax (near-miss forms) and the values the interpreter hands out for type names, directly, in argument-type errors and through macro expansions. Wave 6: every runtime is constructed inside its scheduled goroutine (construction fills process-wide tables too); values made by libraries (validators, type objects, durations) placed inside macro expansions (which exposed defect D8, repaired). Waves 7-8: quoted literals built by macro expansions observed like written ones; insertion at the very end of a literal followed by in-place work; runtimes configured differently by their hosts (json options) with solo twins run before as well as after the interleaved run. Wave 9: in a sixth of the cases the shared parse is made by the format-preserving reader and loaded as a lisp.Program by every runtime (exposed defect D12, repaired). Wave 10: filters that keep or drop everything and map with the identity, followed by in-place work on the result.",
    "C10": "Later additions: well-formed and near-miss text for the library parsers, misspelt references with several equally near candidates, and process groups that also differ in TZ, LANG, LC_ALL, HOME and USER. Wave 6: a third of the forms report what the host would log for their error (message naming the refusing function, and trace) through sim:errtext; non-function values of the packages and user-defined types used where types or functions are expected; host natives that are pointers to structs full of pointers, printed, looked up through help and carried in errors. Waves 7-8: an interruption at a fixed poll (cancellation / expired deadline) or a small step budget in every repetition; one cached parse (lisp.Program) shared by the fresh runtimes of the repetitions, with in-place work on literals printed before and after. Wave 10: symbols that differ only in letter case, with listings of the package's symbols and errors naming them.",
    "C11": "Later additions: stability of sorts under equal keys, single-argument concat, bytes appended from variables (also onto empty accumulators), and reach-in follow-ups that take an element container out of a container, change it in place and inspect both. Waves 7-8: forms that hand back the very value they were given; get-default/key?; insert-sorted of container items ordered by length (the caller's own value ends up in the result). Wave 10: map with callbacks that keep the &rest list they were called with.",
    "C15": "Later additions: a context that reports a deadline, has no Done channel and whose Err stays nil after the deadline; durations at the ends of the int64 range; time-elapsed compared with time-from. Wave 6: the ceiling configured by assigning Runtime.MaxSleep or by re-applying the option after a looser one; a second sleep inside a handler for context-cancelled around the first. Waves 7-8: sleeps in sources loaded by load-string/load-bytes from function bodies; runtimes assembled as composite literals (NewEnvRuntime); sleeps through an embedder's one-formal binding of libtime.BuiltinSleep.",
    "C20": "Later additions: roots spelled relative to a working directory at or below the root (which exposed defect D7, repaired), and files that load further files, whose nested relative locations must resolve against the directory of the file containing the call (entered directly, through links, and through a function defined in another file). Wave 6: the working directory entered through a directory link inside the root that points outside it, with $PWD spelling it that way; files that load files through the fs.FS library, entered directly and from a loader file two directories down. Waves 7-8: every real directory of the layout is watched with inotify and a load during which a file outside the root was opened or read is a violation even when it is refused; relative loads issued by source strings whose free-text label looks like a path compared with the same string under its default name (both libraries); several loads issued by one top-level form through map/foldl/apply (exposed defect D10, repaired). Wave 9: the repository's own command-line tool (elps run --root-dir, built from the tree under test) is run as a subprocess against the simulated disk for every link under the root (exposed defect D11, repaired).",
}
for _k, _v in LATER.items():
    CLAIMED[_k]["text"] += " " + _v

NOT_APPLICABLE = {
    "C01": "pure function of the program text: no schedule, clock, fault or history in the statement; needs a definitional interpreter (differential testing), which is a different technique",
    "C02": "relation between two fault-free deterministic executions under two static configurations plus a height bound that is a function of the program; nothing for a simulator to schedule or inject (the TRO knob is still randomised inside C04-C06)",
    "C03": "input-space sweep over byte strings and builtin argument tuples; its fault-dependent slices (injected host panics never escape, every budgeted evaluation terminates, limit overruns are ordinary errors) are decided under C04/C05/C06",
    "C07": "macro expansion and quasiquote are pure functions of forms; the only concurrent object in scope (gensym counter) is exercised by C09's race run",
    "C12": "law over a single input value (datum / source text); no schedule, clock, fault or history",
    "C13": "law over a single JSON value / document; no schedule, clock, fault or history",
    "C14": "law over schema x value; no schedule, clock, fault or history",
    "C16": "text-to-text function of the source; no schedule, clock, fault or history",
    "C17": "program-equivalence between two fault-free evaluations; no schedule, clock, fault or history",
    "C18": "location and trace are functions of the program; the rethrow-identity clause is checked inside C06",
    "C19": "agreement of two pure functions over (signature, argument count)",
}

PENDING = {pid: "a simulation target (see DESIGN.md section 3) whose check is not built yet at this commit; not claimed until it runs clean on the unchanged tree"
           for pid in [] and [ "C08", "C09", "C10", "C11", "C15", "C20"]}


def main():
    props = [json.loads(l) for l in open(os.path.join(HERE, "properties.jsonl"))]
    ids = [p["id"] for p in props]
    checks = []
    engines_desc = {}
    for pid in ids:
        if pid not in CLAIMED:
            continue
        c = CLAIMED[pid]
        checks.append({
            "property_id": pid,
            "quick_cmd": "./check %s quick" % pid,
            "thorough_cmd": "./check %s thorough" % pid,
            "evidence_file": "/verif/evidence/%s.json" % pid,
            "replay_cmd_template": "./check replay {path}",
            "engine": c["engine"],
            "level_claimed": {"category": c["level"], "text": c["text"], "design_ref": c["design_ref"]},
            "level_note": c["note"],
            "technique": c["technique"],
        })
        engines_desc[pid] = {"rule": c["rule"], "real": c["real"], "stubs": c["stubs"], "assumptions": c["assumptions"]}
    na = []
    for pid in ids:
        if pid in CLAIMED:
            continue
        reason = NOT_APPLICABLE.get(pid) or PENDING.get(pid)
        assert reason, pid
        na.append({"property_id": pid, "reason": reason})
    try:
        hooks_commits = subprocess.check_output(
            ["git", "-C", "/repo", "log", "--format=%H", "--grep", "^verif hook"], text=True).split()
    except Exception:
        hooks_commits = []
    manifest = {
        "version": 1,
        "setup_cmd": "./setup.sh",
        "hooks": {
            "guard": "verif",
            "enable": "go build tag: the simulator binaries are built with `-tags verif` (see ./check); without the tag the hook compiles to an empty inlined function",
            "baseline_off_cmd": "for m in . tree-sitter-elps; do (cd /repo/$m && GOFLAGS=-mod=mod GOPROXY=off go test -json -vet=off -count=1 -timeout 25m ./...); done",
            "source_commits": hooks_commits,
            "add_only": True,
        },
        "engines": [{"name": c["engine"], "path": "/verif/sim", "serves_properties": [pid],
                     "kind_free_text": "deterministic simulation engine in the single Go test binary /verif/bin/sim.test"}
                    for pid, c in CLAIMED.items()],
        "checks": checks,
        "not_applicable": na,
        "notes": "Technique family: deterministic simulation with fault injection. One seed (VERIF_SEED) decides every generated program, knob, fault placement and schedule; cases are explicit JSON data; replay files re-execute in a fresh process. See DESIGN.md.",
    }
    json.dump(manifest, open(os.path.join(HERE, "MANIFEST.json"), "w"), indent=1)
    json.dump(engines_desc, open(os.path.join(HERE, "engines.json"), "w"), indent=1)
    print("wrote MANIFEST.json (%d checks, %d not applicable)" % (len(checks), len(na)))


if __name__ == "__main__":
    main()
